CONSTANTS
  Q = 43
  NOrd = 31
  Dev = "none"
  LamSample = {1, 2, 5, 21, 41, 42}
SPECIFICATION Spec
INVARIANT AllOK
CHECK_DEADLOCK FALSE
