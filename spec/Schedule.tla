------------------------------ MODULE Schedule ------------------------------
(***************************************************************************)
(* Property C19: for a given point, Multiply executes the same sequence of  *)
(* field-level operations for every scalar other than 1.                    *)
(*                                                                         *)
(* This is a 2-safety property (it relates two executions).  It is stated   *)
(* by self-composition: runs are grouped by point; the first run of a point *)
(* fixes the reference schedule, every further run of that point must emit  *)
(* exactly the same sequence (same length, same operation at every          *)
(* position).  Only scalar-INDEPENDENCE is demanded, not a particular       *)
(* schedule: re-ordering independent field operations in a refactor keeps   *)
(* the property.                                                            *)
(***************************************************************************)
EXTENDS Integers, Sequences

VARIABLE ref        \* ref[p]: the schedule observed for point p, or << >> when none yet

Init == ref = << >>

\* first position where two sequences differ (0 if equal)
FirstDiff(a, b) ==
  IF a = b THEN 0
  ELSE LET n == IF Len(a) < Len(b) THEN Len(a) ELSE Len(b)
           D == {i \in 1..n : a[i] # b[i]}
       IN  IF D = {} THEN n + 1 ELSE CHOOSE i \in D : \A j \in D : i <= j

Known(p) == p \in DOMAIN ref
\* a run of Multiply on point p with some scalar # 1 emitted the schedule s
Run(p, s) ==
  IF Known(p) THEN s = ref[p] /\ UNCHANGED ref
  ELSE ref' = [q \in DOMAIN ref \cup {p} |-> IF q = p THEN s ELSE ref[q]]
=============================================================================
