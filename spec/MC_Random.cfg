CONSTANTS
  Alpha = {0, 1, 241, 242, 255}
  MaxLen = 5
  Dev = "none"
SPECIFICATION Spec
INVARIANT Conforms
INVARIANT Progress
CHECK_DEADLOCK FALSE
