------------------------------ MODULE RandomSrc ------------------------------
(***************************************************************************)
(* Scalar.Random against an arbitrary entropy source.                       *)
(*                                                                         *)
(* The source is a finite byte string: Reads deliver its bytes in order, in *)
(* pieces of any size (the chunking is a schedule chosen by the harness and *)
(* is irrelevant to the outcome), and once it is exhausted every Read fails. *)
(* Outcome(data) is the specification of the call: the stream is cut into   *)
(* consecutive BL-byte blocks; the result is the first block whose value    *)
(* mod n is non-zero, reduced; blocks equal to 0 or n are skipped by        *)
(* drawing again; if the source fails before such a block is complete the   *)
(* call panics and the receiver keeps its value.                            *)
(*                                                                         *)
(* MC_Random explores the implementation-shaped step machine (Draw /        *)
(* Reduce / Retry / Finish / Panic) against Outcome for every stream of a   *)
(* toy width, every chunking and every failure position.                    *)
(***************************************************************************)
EXTENDS Integers, Sequences

CONSTANTS BL,               \* block length in bytes (32)
          ROfBlock(_),      \* BL big-endian bytes -> residue mod n
          RZero

NBlocks(data) == Len(data) \div BL
Block(data, i) == SubSeq(data, BL * (i - 1) + 1, BL * i)
Usable(data, i) == ROfBlock(Block(data, i)) # RZero

Outcome(data) ==
  IF \E i \in 1..NBlocks(data) : Usable(data, i)
  THEN LET k == CHOOSE i \in 1..NBlocks(data) : Usable(data, i) /\ \A j \in 1..(i - 1) : ~Usable(data, j)
       IN  [panic |-> FALSE, v |-> ROfBlock(Block(data, k)), used |-> BL * k]
  ELSE [panic |-> TRUE, v |-> RZero, used |-> Len(data)]
=============================================================================
