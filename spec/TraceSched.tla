----------------------------- MODULE TraceSched -----------------------------
(* Validation of recorded field-operation schedules against Schedule. *)
EXTENDS Schedule, Json, IOUtils, TLC

Trace == ndJsonDeserialize(IOEnv.VERIF_TRACE)
VARIABLES l, nbad, nmach
tvars == << ref, l, nbad, nmach >>
Ev == Trace[l]

TraceInit == Trace[1].op = "Header" /\ Init /\ l = 2 /\ nbad = 0 /\ nmach = 0
TraceNext ==
  /\ l <= Len(Trace) /\ l' = l + 1
  /\ IF Ev.op # "Sched" \/ Len(Ev.seq) # Ev.n \/ Ev.n = 0
     THEN /\ PrintT(<< "MACHINERY", l, "Sched", "malformed", 0 >>) /\ nmach' = nmach + 1 /\ UNCHANGED << ref, nbad >>
     ELSE IF ~Known(Ev.point)
     THEN Run(Ev.point, Ev.seq) /\ UNCHANGED << nbad, nmach >>
     ELSE IF Ev.seq = ref[Ev.point]
     THEN Run(Ev.point, Ev.seq) /\ UNCHANGED << nbad, nmach >>
     ELSE /\ PrintT(<< "DISAGREE", l, "Sched", "schedule-depends-on-scalar",
                      << Ev.sclass, Len(ref[Ev.point]), Ev.n, FirstDiff(ref[Ev.point], Ev.seq) >> >>)
          /\ nbad' = nbad + 1 /\ UNCHANGED << ref, nmach >>
TraceSpec == TraceInit /\ [][TraceNext]_tvars
Finished == l = Len(Trace) + 1 => PrintT(<< "TRACE-END", Len(Trace), nbad, nmach >>)
TraceAccepted == TLCGet("stats").diameter = Len(Trace)
=============================================================================
