-------------------------------- MODULE Sec1 --------------------------------
(***************************************************************************)
(* SEC1 v2 section 2.3.3 / 2.3.4 point encodings over an abstract field,    *)
(* as total functions.  Instantiated over a toy field with 1-byte           *)
(* coordinates (exhaustive model checking of every byte string) and over    *)
(* F_p with 32-byte coordinates (trace validation).                         *)
(*                                                                         *)
(* Square roots are never computed here: the decoders take a witness w and  *)
(* CHECK it.  With g = x^3 + A x + B,                                       *)
(*   w^2 =  g           proves "g is a square", the roots being w and -w;   *)
(*   w^2 = -g, g # 0    proves "g is a non-square" because -1 is a          *)
(*                      non-residue (the field order is 3 mod 4).           *)
(* A witness that proves neither is reported as CertFail -- a fault of      *)
(* whoever produced the witness, never a verdict about the decoder.  At toy *)
(* scale TLC finds the witness itself (\E w \in Field).                     *)
(***************************************************************************)
EXTENDS Integers, Sequences

CONSTANTS CL,                  \* coordinate length in bytes
          FOfBytes(_),         \* big-endian bytes -> field element, defined when InRange
          InRange(_),          \* the bytes denote an integer < field order
          FBytes(_),           \* field element -> CL big-endian bytes
          FSgn0(_),            \* parity of the canonical integer
          FSqr(_), FNeg(_), FZero,
          G(_),                \* right-hand side of the curve equation
          Inf, Pt(_, _)        \* point constructors of Curve

Accept(P) == [res |-> "accept", p |-> P]
Reject    == [res |-> "reject", p |-> Inf]
CertFail  == [res |-> "certfail", p |-> Inf]

\* ---------------------------------------------------------------- encoders
Encode(P) == IF P.inf THEN << 0 >> ELSE << 2 + FSgn0(P.y) >> \o FBytes(P.x)
EncodeUncompressed(P) == IF P.inf THEN << 0 >> ELSE << 4 >> \o FBytes(P.x) \o FBytes(P.y)
XCoordinate(P) == Tail(Encode(P))

\* ---------------------------------------------------------------- decoders
DecodeCoordinates(xb, yb) ==
  IF Len(xb) # CL \/ Len(yb) # CL THEN Reject
  ELSE IF ~InRange(xb) \/ ~InRange(yb) THEN Reject
  ELSE LET px == FOfBytes(xb)  py == FOfBytes(yb)
       IN  IF FSqr(py) = G(px) THEN Accept(Pt(px, py)) ELSE Reject

DecodeUncompressed(bs) ==
  IF Len(bs) # 1 + 2 * CL THEN Reject
  ELSE IF bs[1] # 4 THEN Reject
  ELSE DecodeCoordinates(SubSeq(bs, 2, 1 + CL), SubSeq(bs, 2 + CL, 1 + 2 * CL))

DecodeCompressed(bs, w) ==
  IF Len(bs) # 1 + CL THEN Reject
  ELSE IF bs[1] \notin {2, 3} THEN Reject
  ELSE LET xb == SubSeq(bs, 2, 1 + CL)
       IN  IF ~InRange(xb) THEN Reject
           ELSE LET px == FOfBytes(xb)  g == G(px)
                IN  IF FSqr(w) = g
                    THEN Accept(Pt(px, IF FSgn0(w) = bs[1] % 2 THEN w ELSE FNeg(w)))
                    ELSE IF g # FZero /\ FSqr(w) = FNeg(g) THEN Reject
                    ELSE CertFail

\* Decode / UnmarshalBinary: dispatch on the length, identity is the single byte 00
Decode(bs, w) ==
  IF Len(bs) = 1 THEN (IF bs[1] = 0 THEN Accept(Inf) ELSE Reject)
  ELSE IF Len(bs) = 1 + CL THEN DecodeCompressed(bs, w)
  ELSE IF Len(bs) = 1 + 2 * CL THEN DecodeUncompressed(bs)
  ELSE Reject

\* ---------------------------------------------------------------- hexadecimal (ASCII codes)
HexDigits == << 48, 49, 50, 51, 52, 53, 54, 55, 56, 57, 97, 98, 99, 100, 101, 102 >>   \* "0123456789abcdef"
HexEncode(bs) == [i \in 1..(2 * Len(bs)) |->
                    LET b == bs[(i + 1) \div 2] IN HexDigits[(IF i % 2 = 1 THEN b \div 16 ELSE b % 16) + 1]]
HexVal(c) == IF c \in 48..57 THEN c - 48
             ELSE IF c \in 97..102 THEN c - 87
             ELSE IF c \in 65..70 THEN c - 55
             ELSE -1
\* Go's encoding/hex.DecodeString: even length, digits of either case
HexOk(cs) == Len(cs) % 2 = 0 /\ \A i \in 1..Len(cs) : HexVal(cs[i]) >= 0
HexDecode(cs) == [i \in 1..(Len(cs) \div 2) |-> 16 * HexVal(cs[2 * i - 1]) + HexVal(cs[2 * i])]
DecodeHex(cs, w) == IF HexOk(cs) THEN Decode(HexDecode(cs), w) ELSE Reject
=============================================================================
