SPECIFICATION Spec
CONSTANTS
  Universe <- UniverseDef
  Registers <- RegistersDef
  Late <- LateDef
  Platforms <- PlatformsDef
  LibClosure <- LibClosureObserved
  Needs <- NeedsDef
INVARIANT NeverPanics
CHECK_DEADLOCK FALSE
