SPECIFICATION Spec
CONSTANTS
  Universe <- UniverseDef
  Registers <- RegistersDef
  LibClosure <- LibClosureObserved
  Needs <- NeedsDef
INVARIANT NeverPanics
CHECK_DEADLOCK FALSE
