SPECIFICATION Spec
CONSTANTS
  Universe <- UniverseDef
  Registers <- RegistersDef
  Platforms <- PlatformsDef
  LibClosure <- LibClosureObserved
  Needs <- NeedsDef
INVARIANT NeverPanics
CHECK_DEADLOCK FALSE
