------------------------------ MODULE TraceMem ------------------------------
(***************************************************************************)
(* Validation of memory traces recorded from the real library against Mem.  *)
(* Same scheme as TraceSecp: one line per step, the step is always taken,   *)
(* a disagreement is printed and the rest of that history is skipped.       *)
(* Addresses are ranks over a whole history, so a result can be compared    *)
(* with every earlier result held in the model's state.                     *)
(***************************************************************************)
EXTENDS Mem, Json, IOUtils, TLC

Trace == ndJsonDeserialize(IOEnv.VERIF_TRACE)
VARIABLES l, mode, nbad, nmach
tvars == << results, l, mode, nbad, nmach >>
Ev == Trace[l]

TraceInit == Trace[1].op = "Header" /\ Init /\ l = 2 /\ mode = "run" /\ nbad = 0 /\ nmach = 0

\* Mem!Call, taken whether or not it holds; the reason of a failure is worked out for the report
CallStep ==
  LET e == Ev
      why == IF ~CallerMemoryUnchanged(e.bufs)
               THEN << "caller-memory-written", {e.bufs[i].name : i \in {j \in 1..Len(e.bufs) : e.bufs[j].after # e.bufs[j].before}} >>
             ELSE IF ~Fresh(e.bufs, e.rets)
               THEN << "result-not-fresh", 0 >>
             ELSE << "ok", 0 >>
  IN  /\ results' = results \cup {e.rets[i].iv : i \in 1..Len(e.rets)}
      /\ (why[1] = "ok" => Call(e.bufs, e.rets))              \* the model's action agrees (sanity of this module)
      /\ (why[1] # "ok" => PrintT(<< "DISAGREE", l, "MemCall", why[1], << e.fn, why[2] >> >>))
      /\ mode' = IF why[1] = "ok" THEN "run" ELSE "skip"
      /\ nbad' = IF why[1] = "ok" THEN nbad ELSE nbad + 1
      /\ nmach' = nmach

ProbeStep ==
  /\ UNCHANGED results
  /\ LET good == Ev.before = Ev.after
     IN  /\ (~good => PrintT(<< "DISAGREE", l, "MemProbe", "value-moved", Ev.what >>))
         /\ mode' = IF good THEN "run" ELSE "skip"
         /\ nbad' = IF good THEN nbad ELSE nbad + 1
         /\ nmach' = nmach

TraceNext ==
  /\ l <= Len(Trace)
  /\ l' = l + 1
  /\ IF Ev.op = "MemReset" THEN results' = {} /\ mode' = "run" /\ UNCHANGED << nbad, nmach >>
     ELSE IF mode = "skip" THEN UNCHANGED << results, mode, nbad, nmach >>
     ELSE IF Ev.op = "MemCall" THEN CallStep
     ELSE IF Ev.op = "MemProbe" THEN ProbeStep
     ELSE /\ PrintT(<< "MACHINERY", l, "Unknown", "unknown-op", Ev.op >>)
          /\ mode' = "skip" /\ nmach' = nmach + 1 /\ UNCHANGED << results, nbad >>

TraceSpec == TraceInit /\ [][TraceNext]_tvars
Finished == l = Len(Trace) + 1 => PrintT(<< "TRACE-END", Len(Trace), nbad, nmach >>)
TraceAccepted == TLCGet("stats").diameter = Len(Trace)
=============================================================================
