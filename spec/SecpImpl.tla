------------------------------ MODULE SecpImpl ------------------------------
(***************************************************************************)
(* The implementation-shaped layer: what element.go does, over an abstract  *)
(* field.  Elements are homogeneous projective triples << X, Y, Z >>        *)
(* (identity: Z = 0).                                                       *)
(*                                                                         *)
(*   RCBAdd / RCBDbl   Algorithms 7 and 9 of Renes-Costello-Batina,         *)
(*                     "Complete addition formulas for prime order elliptic *)
(*                     curves" (a = 0, b3 = 3b), transcribed from the PAPER *)
(*                     step by step; all reads happen before the result is  *)
(*                     written, so receiver = argument is harmless          *)
(*   EqualImpl         cross-multiplied comparison                          *)
(*   AffineImpl        normalisation with the convention 0^-1 = 0 and the   *)
(*                     conditional move to (0, 1) for Z = 0                 *)
(*   LadderImpl        the Montgomery ladder over the NBits-bit expansion   *)
(*                     of the scalar, with its k = 1 shortcut               *)
(* MC_GroupLaw / MC_Ladder check these against Curve (the mathematics) for  *)
(* EVERY point, EVERY projective scaling and EVERY scalar of toy curves.    *)
(* Named deviations (mutants of this module, selected by the constant Dev)  *)
(* show that the checks are not vacuous: each must make TLC report an       *)
(* error.                                                                   *)
(***************************************************************************)
EXTENDS Integers, Sequences, SequencesExt

CONSTANTS FAdd(_, _), FSub(_, _), FMul(_, _), FNeg(_), FInv(_), FZero, FOne, FSgn0(_),
          B3,           \* 3 * b
          Dev           \* "none" or the name of a deliberate deviation

\* ---- Algorithm 7 (complete addition, a = 0)
RCBAdd(U, V) ==
  LET X1 == U[1]  Y1 == U[2]  Z1 == U[3]
      X2 == V[1]  Y2 == V[2]  Z2 == V[3]
      t0a == FMul(X1, X2)                 \* 1.  t0 := X1 * X2
      t1a == FMul(Y1, Y2)                 \* 2.  t1 := Y1 * Y2
      t2a == FMul(Z1, Z2)                 \* 3.  t2 := Z1 * Z2
      t3a == FAdd(X1, Y1)                 \* 4.  t3 := X1 + Y1
      t4a == FAdd(X2, Y2)                 \* 5.  t4 := X2 + Y2
      t3b == FMul(t3a, t4a)               \* 6.  t3 := t3 * t4
      t4b == FAdd(t0a, t1a)               \* 7.  t4 := t0 + t1
      t3c == FSub(t3b, t4b)               \* 8.  t3 := t3 - t4
      t4c == FAdd(Y1, Z1)                 \* 9.  t4 := Y1 + Z1
      X3a == FAdd(Y2, Z2)                 \* 10. X3 := Y2 + Z2
      t4d == FMul(t4c, X3a)               \* 11. t4 := t4 * X3
      X3b == FAdd(t1a, t2a)               \* 12. X3 := t1 + t2
      t4e == FSub(t4d, X3b)               \* 13. t4 := t4 - X3
      X3c == FAdd(X1, Z1)                 \* 14. X3 := X1 + Z1
      Y3a == FAdd(X2, Z2)                 \* 15. Y3 := X2 + Z2
      X3d == FMul(X3c, Y3a)               \* 16. X3 := X3 * Y3
      Y3b == FAdd(t0a, t2a)               \* 17. Y3 := t0 + t2
      Y3c == FSub(X3d, Y3b)               \* 18. Y3 := X3 - Y3
      X3e == FAdd(t0a, t0a)               \* 19. X3 := t0 + t0
      t0b == FAdd(X3e, t0a)               \* 20. t0 := X3 + t0
      t2b == FMul(B3, t2a)                \* 21. t2 := b3 * t2
      Z3a == FAdd(t1a, t2b)               \* 22. Z3 := t1 + t2
      t1b == FSub(t1a, t2b)               \* 23. t1 := t1 - t2
      Y3d == FMul(B3, Y3c)                \* 24. Y3 := b3 * Y3
      X3f == FMul(t4e, Y3d)               \* 25. X3 := t4 * Y3
      t2c == FMul(t3c, t1b)               \* 26. t2 := t3 * t1
      X3g == FSub(t2c, X3f)               \* 27. X3 := t2 - X3
      Y3e == FMul(Y3d, t0b)               \* 28. Y3 := Y3 * t0
      t1c == FMul(t1b, Z3a)               \* 29. t1 := t1 * Z3
      Y3f == FAdd(t1c, Y3e)               \* 30. Y3 := t1 + Y3
      t0c == FMul(t0b, t3c)               \* 31. t0 := t0 * t3
      Z3b == FMul(Z3a, t4e)               \* 32. Z3 := Z3 * t4
      Z3c == FAdd(Z3b, t0c)               \* 33. Z3 := Z3 + t0
  IN  IF Dev = "add-skips-step-20" THEN << FSub(t2c, X3f), FAdd(t1c, FMul(Y3d, X3e)), FAdd(Z3b, FMul(X3e, t3c)) >>
      ELSE << X3g, Y3f, Z3c >>

\* ---- Algorithm 9 (exception-free doubling, a = 0)
RCBDbl(U) ==
  LET X == U[1]  Y == U[2]  Z == U[3]
      t0a == FMul(Y, Y)                   \* 1.  t0 := Y^2
      Z3a == FAdd(t0a, t0a)               \* 2.  Z3 := t0 + t0
      Z3b == FAdd(Z3a, Z3a)               \* 3.  Z3 := Z3 + Z3
      Z3c == FAdd(Z3b, Z3b)               \* 4.  Z3 := Z3 + Z3
      t1a == FMul(Y, Z)                   \* 5.  t1 := Y * Z
      t2a == FMul(Z, Z)                   \* 6.  t2 := Z^2
      t2b == FMul(B3, t2a)                \* 7.  t2 := b3 * t2
      X3a == FMul(t2b, Z3c)               \* 8.  X3 := t2 * Z3
      Y3a == FAdd(t0a, t2b)               \* 9.  Y3 := t0 + t2
      Z3d == FMul(t1a, Z3c)               \* 10. Z3 := t1 * Z3
      t1b == FAdd(t2b, t2b)               \* 11. t1 := t2 + t2
      t2c == FAdd(t1b, t2b)               \* 12. t2 := t1 + t2
      t0b == FSub(t0a, t2c)               \* 13. t0 := t0 - t2
      Y3b == FMul(t0b, Y3a)               \* 14. Y3 := t0 * Y3
      Y3c == FAdd(X3a, Y3b)               \* 15. Y3 := X3 + Y3
      t1c == FMul(X, Y)                   \* 16. t1 := X * Y
      X3b == FMul(t0b, t1c)               \* 17. X3 := t0 * t1
      X3c == FAdd(X3b, X3b)               \* 18. X3 := X3 + X3
  IN  << X3c, Y3c, Z3d >>

NegImpl(U) == IF U[3] = FZero THEN U ELSE << U[1], FNeg(U[2]), U[3] >>     \* Negate returns an identity untouched
SubImpl(U, V) == RCBAdd(U, << V[1], FNeg(V[2]), V[3] >>)                     \* Subtract negates a copy unconditionally

\* ---- Equal: x1 z2 = x2 z1 and y1 z2 = y2 z1
EqualImpl(U, V) ==
  LET xs == FMul(U[1], V[3]) = FMul(V[1], U[3])
      ys == FMul(U[2], V[3]) = FMul(V[2], U[3])
  IN  IF Dev = "equal-ignores-y" THEN (IF xs THEN 1 ELSE 0)
      ELSE IF Dev = "equal-ignores-x" THEN (IF ys THEN 1 ELSE 0)
      ELSE IF xs /\ ys THEN 1 ELSE 0
IsIdentityImpl(U) == U[3] = FZero

\* ---- affine(): multiply by Z^-1 (0^-1 = 0), then move (0, 1) in when Z = 0
AffineImpl(U) ==
  LET zi == FInv(U[3])
      ax == FMul(zi, U[1])
      ay == FMul(zi, U[2])
  IN  IF U[3] = FZero THEN << FZero, FOne >> ELSE << ax, ay >>

\* ---- the ladder of Element.multiply over bits[1..L] (bits[i] = bit i-1 of the scalar)
LadderStepImpl(st, bit) ==            \* st = << r0, r1 >>
  IF bit = 0 THEN << RCBDbl(st[1]), RCBAdd(st[2], st[1]) >>
  ELSE << RCBAdd(st[1], st[2]), RCBDbl(st[2]) >>

LadderImpl(U, bits, isOne) ==
  IF isOne THEN U
  ELSE LET L == Len(bits)
           top == IF Dev = "ladder-skips-top-bit" THEN L - 1 ELSE L
           msbFirst == [j \in 1..top |-> bits[top + 1 - j]]
       IN  FoldLeft(LadderStepImpl, << << FZero, FOne, FZero >>, U >>, msbFirst)[1]

\* field-level operation schedule of one ladder step (C19): the names do not depend on the bit
StepSchedule(bit) == IF Dev = "ladder-adds-only-when-bit-set" /\ bit = 0 THEN << "dbl" >> ELSE << "add", "dbl" >>
=============================================================================
