CONSTANTS
  Q = 43
  NOrd = 31
  Dev = "none"
  Alpha = {0, 1, 2, 3, 4, 5, 6, 7, 20, 41, 42, 43, 44, 45, 85, 86, 128, 254, 255}
SPECIFICATION Spec
INVARIANT AllOK
CHECK_DEADLOCK FALSE
