------------------------------ MODULE ApaLimbs ------------------------------
(***************************************************************************)
(* Symbolic lemmas (Apalache, unbounded integers) about the 4 x 64-bit limb *)
(* idioms of the implementation, for ALL 2^512 pairs of 256-bit values:     *)
(*   LeLemma      the bits.Sub64 borrow chain of Scalar.LessOrEqual returns *)
(*                1 exactly when the first 256-bit value is <= the second;  *)
(*   ReduceLemmaN / ReduceLemmaP                                            *)
(*                the borrow of x - m is 1 exactly when x < m, and the      *)
(*                selected value is x mod m, for the group order n and the  *)
(*                field prime p (one conditional subtraction suffices       *)
(*                because 2^256 < 2m).                                      *)
(* These back the toy-scale checks of module Limbs (MC_Scalars) at full     *)
(* width.  They are facts about the model; the code is tied to them by the  *)
(* boundary-value traces of C07 / C12 / C13.                                *)
(***************************************************************************)
EXTENDS Integers

VARIABLES
  \* @type: Int;
  a0,
  \* @type: Int;
  a1,
  \* @type: Int;
  a2,
  \* @type: Int;
  a3,
  \* @type: Int;
  b0,
  \* @type: Int;
  b1,
  \* @type: Int;
  b2,
  \* @type: Int;
  b3

W == 18446744073709551616
IsWord(x) == x >= 0 /\ x < W

Init == /\ a0 \in Int /\ a1 \in Int /\ a2 \in Int /\ a3 \in Int
        /\ b0 \in Int /\ b1 \in Int /\ b2 \in Int /\ b3 \in Int
        /\ IsWord(a0) /\ IsWord(a1) /\ IsWord(a2) /\ IsWord(a3)
        /\ IsWord(b0) /\ IsWord(b1) /\ IsWord(b2) /\ IsWord(b3)
Next == UNCHANGED << a0, a1, a2, a3, b0, b1, b2, b3 >>

Val(x0, x1, x2, x3) == x0 + W * x1 + W * W * x2 + W * W * W * x3

\* bits.Sub64(x, y, borrowIn): difference word and borrow out
Diff(x, y, bi) == IF x - y - bi < 0 THEN x - y - bi + W ELSE x - y - bi
Borrow(x, y, bi) == IF x - y - bi < 0 THEN 1 ELSE 0

\* the chain over (a, b)
D0 == Diff(a0, b0, 0)
R0 == Borrow(a0, b0, 0)
D1 == Diff(a1, b1, R0)
R1 == Borrow(a1, b1, R0)
D2 == Diff(a2, b2, R1)
R2 == Borrow(a2, b2, R1)
D3 == Diff(a3, b3, R2)
R3 == Borrow(a3, b3, R2)

LeChain == (D0 = 0 /\ D1 = 0 /\ D2 = 0 /\ D3 = 0) \/ R3 = 1
LeLemma == LeChain <=> Val(a0, a1, a2, a3) <= Val(b0, b1, b2, b3)

\* Reduce: b is fixed to the modulus
NOrd == 115792089237316195423570985008687907852837564279074904382605163141518161494337
PFld == 115792089237316195423570985008687907853269984665640564039457584007908834671663
BIsN == b0 = 13822214165235122497 /\ b1 = 13451932020343611451 /\ b2 = 18446744073709551614 /\ b3 = 18446744073709551615
BIsP == b0 = 18446744069414583343 /\ b1 = 18446744073709551615 /\ b2 = 18446744073709551615 /\ b3 = 18446744073709551615
Selected == IF R3 = 1 THEN Val(a0, a1, a2, a3) ELSE Val(D0, D1, D2, D3)
ReduceOK(m) == LET x == Val(a0, a1, a2, a3)
               IN  /\ (R3 = 1) <=> (x < m)
                   /\ Selected = (IF x < m THEN x ELSE x - m)
                   /\ Selected >= 0 /\ Selected < m
ReduceLemmaN == BIsN => (Val(b0, b1, b2, b3) = NOrd /\ ReduceOK(NOrd))
ReduceLemmaP == BIsP => (Val(b0, b1, b2, b3) = PFld /\ ReduceOK(PFld))
\* a deliberately wrong variant (must yield a counterexample): compare without the final borrow
WrongLemma == ((D0 = 0 /\ D1 = 0 /\ D2 = 0 /\ D3 = 0) \/ R2 = 1) <=> Val(a0, a1, a2, a3) <= Val(b0, b1, b2, b3)
=============================================================================
