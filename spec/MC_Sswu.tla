------------------------------- MODULE MC_Sswu -------------------------------
(***************************************************************************)
(* C11 at toy scale, exhaustively: on a toy field with a curve E' and an    *)
(* SSWU constant Z satisfying the conditions of RFC 9380 section 6.6.2      *)
(* (checked below by ASSUME), for EVERY field element u:                    *)
(*   - the RFC's definition MapToCurve(u) lies on E' and has                *)
(*     sgn0(y) = sgn0(u);                                                   *)
(*   - the inversion- and root-free relation IsMapOf(u, .) -- which is what *)
(*     the trace validator evaluates at 256 bits -- holds for that point    *)
(*     and for NO other point of the plane;                                 *)
(*   - exactly three u take the exceptional branch (u = 0, +-sqrt(-1/Z)).   *)
(***************************************************************************)
EXTENDS Integers, FiniteSets, TLC

CONSTANTS Q, TA, TB, TZ
VARIABLES u, ok
vars == << u, ok >>

Fq == 0..(Q - 1)
TAdd(a, b) == (a + b) % Q
TSub(a, b) == (a - b + Q) % Q
TMul(a, b) == (a * b) % Q
TNeg(a) == (Q - a) % Q
TInv(a) == IF a = 0 THEN 0 ELSE CHOOSE b \in 1..(Q - 1) : (a * b) % Q = 1
TSgn0(a) == a % 2
TIsSquare(a) == \E r \in Fq : (r * r) % Q = a
TSqrt(a) == CHOOSE r \in Fq : (r * r) % Q = a
TPt(x, y) == [inf |-> FALSE, x |-> x, y |-> y]

SW == INSTANCE Sswu WITH FAdd <- TAdd, FSub <- TSub, FMul <- TMul, FNeg <- TNeg, FZero <- 0, FOne <- 1,
                         FInv <- TInv, FIsSquare <- TIsSquare, FSqrt <- TSqrt, FSgn0 <- TSgn0,
                         SA <- TA, SB <- TB, SZ <- TZ, Pt <- TPt

\* the conditions under which the relation characterises the map
ASSUME Q % 4 = 3
ASSUME ~TIsSquare(TZ) /\ TZ # Q - 1
ASSUME TIsSquare(SW!Gp(TMul(TB, TInv(TMul(TZ, TA)))))
ASSUME \A x \in Fq : SW!Gp(x) # 0                       \* E' has no point of order 2 (odd order)
ASSUME Cardinality({w \in Fq : SW!IsExceptional(w)}) = 3

UOK(w) ==
  LET P == SW!MapToCurve(w)
  IN  /\ TMul(P.y, P.y) = SW!Gp(P.x)
      /\ TSgn0(P.y) = TSgn0(w)
      /\ SW!IsMapOf(w, P)
      /\ \A x \in Fq, y \in Fq : SW!IsMapOf(w, TPt(x, y)) => TPt(x, y) = P

Init == u = -1 /\ ok = TRUE
Next == u = -1 /\ \E w \in Fq : u' = w /\ ok' = UOK(w)
Spec == Init /\ [][Next]_vars
AllOK == ok
=============================================================================
