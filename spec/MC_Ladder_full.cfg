CONSTANTS
  Q = 43
  NOrd = 31
  Dev = "none"
  L = 6
  LamSample = {1,2,3,4,5,6,7,8,9,10,11,12,13,14,15,16,17,18,19,20,21,22,23,24,25,26,27,28,29,30,31,32,33,34,35,36,37,38,39,40,41,42}
SPECIFICATION Spec
INVARIANT AllOK
CHECK_DEADLOCK FALSE
