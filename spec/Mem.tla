-------------------------------- MODULE Mem --------------------------------
(***************************************************************************)
(* Caller-owned memory and result freshness (property C15).                 *)
(*                                                                         *)
(* Memory is a set of address intervals [lo, hi) (addresses are ranks: the  *)
(* harness compresses real addresses order-preservingly).  The caller owns  *)
(* byte buffers; a slice argument is a window (off, len) of a buffer whose  *)
(* capacity may extend beyond the window (spare capacity) and which may     *)
(* start inside the buffer.  State:                                         *)
(*    bufs     the caller's buffers of the current call, each with its      *)
(*             whole backing array as the caller last saw it                *)
(*    results  intervals of every slice the API returned so far in this     *)
(*             history (the caller still holds all of them)                 *)
(* Actions:                                                                 *)
(*    Call     an API call returns.  It must have left every byte of every  *)
(*             caller buffer -- not only the window handed over -- as it    *)
(*             was (CallerMemoryUnchanged), and every returned slice must   *)
(*             be disjoint from every caller buffer, every earlier result   *)
(*             and the other results of this call (Fresh).                  *)
(*    Probe    the caller has written all over earlier results / input      *)
(*             buffers and observes a value again: it must not have moved.  *)
(***************************************************************************)
EXTENDS Integers, Sequences, FiniteSets

VARIABLES results

Disjoint(a, b) == a[2] <= b[1] \/ b[2] <= a[1] \/ a[1] = a[2] \/ b[1] = b[2]

\* bufs: sequence of [before, after, iv]; rets: sequence of [iv]
CallerMemoryUnchanged(bufs) == \A i \in 1..Len(bufs) : bufs[i].after = bufs[i].before

Fresh(bufs, rets) ==
  \A i \in 1..Len(rets) :
    /\ \A j \in 1..Len(bufs) : Disjoint(rets[i].iv, bufs[j].iv)
    /\ \A q \in results : Disjoint(rets[i].iv, q)
    /\ \A j \in 1..Len(rets) : j # i => Disjoint(rets[i].iv, rets[j].iv)

Call(bufs, rets) ==
  /\ CallerMemoryUnchanged(bufs)
  /\ Fresh(bufs, rets)
  /\ results' = results \cup {rets[i].iv : i \in 1..Len(rets)}

Probe(before, after) == before = after /\ UNCHANGED results

Init == results = {}
=============================================================================
