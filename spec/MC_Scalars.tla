------------------------------ MODULE MC_Scalars ------------------------------
(***************************************************************************)
(* C06, C07, C13, C14 at toy scale, exhaustively.  Z/nZ for a toy prime n   *)
(* with 2^8 < 2n (as 2^256 < 2n for secp256k1), scalars held as two 4-bit   *)
(* limbs, encodings one byte.  For EVERY ordered pair (a, b):               *)
(*   - Scalars' ring operations are the integer operations mod n, results   *)
(*     canonical; IsInverse has exactly one solution; Pow is repeated       *)
(*     multiplication;                                                      *)
(*   - the borrow-chain LessOrEqual on CANONICAL limbs is integer <=        *)
(*     (deviation "compare-montgomery": on Montgomery-form limbs it is not);*)
(*   - the mask-based conditional move picks the first operand for 0 and    *)
(*     the second for EVERY non-zero condition word (deviation              *)
(*     "cmov-raw-cond": without 0/1 normalisation it blends them);          *)
(*   - the bit expansion has NB entries reconstructing the value            *)
(*     (deviation "bits-drop-top": the loop stops one position early).      *)
(* For EVERY byte string of length 0..2: Decode's error class and value,    *)
(* Encode o Decode and Decode o Encode; the one conditional subtraction of  *)
(* Reduce returns flag = 1 exactly for inputs < n and the value mod n.      *)
(***************************************************************************)
EXTENDS Integers, Sequences, SequencesExt, FiniteSets, TLC

CONSTANTS N, Dev
NB == 8

L == INSTANCE Limbs WITH WBits <- 4, K <- 2, Dev <- Dev

RAddT(a, b) == (a + b) % N
RSubT(a, b) == (a - b + N) % N
RMulT(a, b) == (a * b) % N
RBitT(v, i) == (v \div L!P2(i)) % 2
OfBytesT(bs) == bs[1]
InRangeT(bs) == bs[1] < N
BytesT(v) == << v >>

Sc == INSTANCE Scalars WITH RAdd <- RAddT, RSub <- RSubT, RMul <- RMulT, RZero <- 0, ROne <- 1, RMinusOne <- N - 1,
                            RLe <- <=, RBit <- RBitT, NBits <- NB, SL <- 1,
                            ROfBytes <- OfBytesT, RInRange <- InRangeT, RBytes <- BytesT

RECURSIVE PowRef(_, _)
PowRef(s, t) == IF t = 0 THEN 1 ELSE (s * PowRef(s, t - 1)) % N

Mont(a) == (a * 256) % N           \* the representation the code stores: a * R mod n, R = 2^8

VARIABLES a, b, ok
vars == << a, b, ok >>

PairOK(x, y) ==
  /\ Sc!Add(x, y) = (x + y) % N /\ Sc!Subtract(x, y) = (x - y + N) % N /\ Sc!Multiply(x, y) = (x * y) % N
  /\ Sc!Square(x) = (x * x) % N
  /\ Sc!Pow(x, y) = PowRef(x, y)
  /\ Cardinality({r \in 0..(N - 1) : Sc!IsInverse(x, r)}) = 1
  /\ Sc!Equal(x, y) = (IF x = y THEN 1 ELSE 0)
  \* LessOrEqual as implemented: the borrow chain, on canonical limbs (or, deviation, on Montgomery limbs)
  /\ LET la == IF Dev = "compare-montgomery" THEN L!ToLimbs(Mont(x)) ELSE L!ToLimbs(x)
         lb == IF Dev = "compare-montgomery" THEN L!ToLimbs(Mont(y)) ELSE L!ToLimbs(y)
     IN  L!LeChain(la, lb) = Sc!LessOrEqual(x, y)
  \* CSelect for every condition word of the toy width
  /\ \A c \in 0..15 : L!Val(L!CMovMask(c, L!ToLimbs(x), L!ToLimbs(y))) = Sc!CSelect(c = 0, x, y)
  \* Bits
  /\ LET bits == L!BitsOfLimbs(L!ToLimbs(x), NB)
     IN  /\ bits = Sc!Bits(x)
         /\ FoldLeft(LAMBDA acc, i : acc + bits[i] * L!P2(i - 1), 0, [i \in 1..NB |-> i]) = x

BytesOK(bs) ==
  LET d == Sc!Decode(bs)
  IN  /\ d.err = (IF Len(bs) = 0 THEN 1 ELSE IF Len(bs) # 1 THEN 2 ELSE IF bs[1] >= N THEN 3 ELSE 0)
      /\ (d.err = 0 => d.v = bs[1] /\ Sc!Encode(d.v) = bs)
      /\ (Len(bs) = 1 => LET r == L!ReduceOnce(L!ToLimbs(bs[1]), L!ToLimbs(N))
                         IN  r.flag = (IF bs[1] < N THEN 1 ELSE 0) /\ L!Val(r.v) = bs[1] % N)

AllStrings == {<< >>} \cup {<< x >> : x \in 0..255} \cup {<< x, y >> : x \in {0, 1, N - 1, N, 255}, y \in {0, 7, 255}}

Init == a \in 0..(N - 1) /\ b = -1 /\ ok = (\A y \in 0..(N - 1) : Sc!Decode(Sc!Encode(a)).v = a)
Next == /\ b = -1 /\ ok
        /\ \/ \E y \in 0..(N - 1) : b' = y /\ a' = a /\ ok' = PairOK(a, y)
           \/ a = 0 /\ \E bs \in AllStrings : b' = -2 /\ a' = Len(bs) * 1000 + (IF Len(bs) > 0 THEN bs[1] ELSE 0) /\ ok' = BytesOK(bs)
Spec == Init /\ [][Next]_vars
AllOK == ok
=============================================================================
