------------------------------- MODULE MC_Mont -------------------------------
(* Exhaustive check of Mont at toy width: every ordered pair of residues. *)
EXTENDS Mont, TLC
VARIABLES a, b, ok
vars == << a, b, ok >>
RInv == CHOOSE x \in 1..(M - 1) : (x * R) % M = 1

PairOK(x, y) ==
  /\ Mul(x, y) = (x * y * RInv) % M
  /\ Mul(x, y) < M
  /\ Add(x, y) = (x + y) % M /\ Add(x, y) < M
  /\ Sub(x, y) = (x - y + M) % M
SingleOK(x) ==
  /\ Square(x) = (x * x * RInv) % M
  /\ Opp(x) = (M - x) % M /\ Opp(x) < M
  /\ FromMont(ToMont(x)) = x /\ ToMont(x) = (x * R) % M
  \* the ring seen through the Montgomery form: ToMont is a homomorphism for Mul
  /\ FromMont(Mul(ToMont(x), ToMont(x))) = (x * x) % M

Init == a \in 0..(M - 1) /\ b = -1 /\ ok = SingleOK(a)
Next == b = -1 /\ ok /\ \E y \in 0..(M - 1) : b' = y /\ a' = a /\ ok' = PairOK(a, y)
Spec == Init /\ [][Next]_vars
AllOK == ok
=============================================================================
