----------------------------- MODULE MC_SelfTest -----------------------------
(***************************************************************************)
(* Validation of the specification's own arithmetic, by TLC:                *)
(*   - SHA-256 against FIPS 180-4 known answers,                            *)
(*   - BigNat against native integers,                                      *)
(*   - the 256-bit field / curve instantiation against algebraic facts      *)
(*     ([n]G = O, [n-1]G = -G, a^(p-1) = 1, relational = functional law),   *)
(*   - hash_to_field, the functional RFC 9380 pipeline and the relational   *)
(*     one against the pinned RFC 9380 J.8 vectors.                         *)
(* One test per step so that progress is visible; Depth selects how many.   *)
(***************************************************************************)
EXTENDS H2C, Vectors, TLC
CONSTANT Depth
VARIABLE t

Abc == << 97, 98, 99 >>
Msg448 == << 97,98,99,100,98,99,100,101,99,100,101,102,100,101,102,103,101,102,103,104,102,103,104,105,
             103,104,105,106,104,105,106,107,105,106,107,108,106,107,108,109,107,108,109,110,108,109,110,111,
             109,110,111,112,110,111,112,113 >>
Msg1024 == [i \in 1..1024 |-> (i - 1) % 256]
KatEmpty == << 227,176,196,66,152,252,28,20,154,251,244,200,153,111,185,36,39,174,65,228,100,155,147,76,164,149,153,27,120,82,184,85 >>
KatAbc == << 186,120,22,191,143,1,207,234,65,65,64,222,93,174,34,35,176,3,97,163,150,23,122,156,180,16,255,97,242,0,21,173 >>
Kat448 == << 36,141,106,97,210,6,56,184,229,192,38,147,12,62,96,57,163,60,228,89,100,255,33,103,246,236,237,212,25,219,6,193 >>
Kat1024 == << 120,91,7,81,252,44,83,220,20,164,206,61,128,14,105,239,156,225,0,158,179,39,204,244,88,175,224,156,36,44,38,201 >>

BitsOf(k) == [j \in 1..256 |-> Bit(k, 256 - j)]
NMinus1 == Sub(N_m, FromIntW(1))

SmallOK ==
  \A a \in {0, 1, 2, 4095, 4096, 4097, 65535, 1000003, 16777215} :
    \A b \in {0, 1, 3, 4095, 4096, 70001, 46340} :
      /\ ToInt(Add(FromInt(a), FromInt(b))) = a + b
      /\ (a >= b => ToInt(Sub(FromInt(a), FromInt(b))) = a - b)
      /\ (a <= 46340 /\ b <= 46340 => ToInt(Mul(FromInt(a), FromInt(b))) = a * b)
      /\ Cmp(FromInt(a), FromInt(b)) = (IF a < b THEN -1 ELSE IF a = b THEN 0 ELSE 1)
      /\ ToInt(OS2IP(I2OSP(FromInt(a), 4))) = a

VecOK(i) ==
  LET v == RfcVectors[i]
      cnt == IF v.ro THEN 2 ELSE 1
      u == HashToFieldP(v.msg, v.dst, cnt)
      P == C!Pt(OS2IP(v.px), OS2IP(v.py))
      q0 == SW!MapToCurve(u[1])
      Q0 == C!Pt(OS2IP(v.q0x), OS2IP(v.q0y))
  IN  /\ \A j \in 1..cnt : I2OSP(u[j], 32) = v.u[j]
      /\ SW!IsMapOf(u[1], q0)
      /\ CI!OnCurve(q0)
      /\ IsoMapF(q0) = Q0
      /\ IsIsoMapOf(q0, Q0)
      /\ IF v.ro
         THEN LET q1 == SW!MapToCurve(u[2])
                  Q1 == C!Pt(OS2IP(v.q1x), OS2IP(v.q1y))
                  r  == CI!AddAffine(q0, q1)
              IN  /\ IsoMapF(q1) = Q1
                  /\ C!AddAffine(Q0, Q1) = P            \* RFC text: add after iso_map
                  /\ IsHashToCurve(v.msg, v.dst, q0, q1, r, P)   \* relational, adding on E' first
                  /\ ~IsHashToCurve(v.msg, v.dst, q1, q0, r, P)  \* swapped certificates are rejected
                  /\ ~IsHashToCurve(v.msg, v.dst, q0, q1, r, Q0) \* and so is a wrong result
         ELSE /\ Q0 = P
              /\ IsEncodeToCurve(v.msg, v.dst, q0, P)

Test(i) ==
  CASE i = 1 -> Sha256(<< >>) = KatEmpty /\ Sha256(Abc) = KatAbc
    [] i = 2 -> Sha256(Msg448) = Kat448 /\ Sha256(Msg1024) = Kat1024
    [] i = 3 -> SmallOK
    [] i = 4 -> C!OnCurve(BaseG) /\ PPow(G_x, Sub(P_m, FromIntW(1))) = POne /\ PMul(PInv(G_y), G_y) = POne
    [] i = 5 -> LET D == C!AddAffine(BaseG, BaseG)
                IN  /\ C!OnCurve(D) /\ C!IsSum(BaseG, BaseG, D) /\ ~C!IsSum(BaseG, BaseG, C!Neg(D))
                    /\ C!JEqualsAffine(C!JDbl(C!JOfAffine(BaseG)), D)
                    /\ C!IsSum(D, C!Neg(BaseG), BaseG) /\ C!IsSum(D, C!Neg(D), C!Inf)
    [] i = 6 -> C!JEqualsAffine(C!SMulBits(BitsOf(NMinus1), BaseG), C!Neg(BaseG))
    [] i = 7 -> C!JIsInf(C!SMulBits(BitsOf(N_m), BaseG))
    [] i = 8 -> HashToScalar(Abc, RfcVectors[1].dst) = WideReduce(ExpandMessageXmd(Abc, RfcVectors[1].dst, 48), NM)
                /\ Len(ExpandMessageXmd(Abc, [k \in 1..300 |-> 65], 96)) = 96
    [] OTHER -> VecOK(i - 8)

NTests == 8 + Len(RfcVectors)
Init == t = 0
Next == /\ t < Depth /\ t < NTests
        /\ t' = t + 1
        /\ Assert(Test(t + 1), << "self-test failed", t + 1 >>)
        /\ PrintT(<< "selftest-ok", t + 1 >>)
=============================================================================
