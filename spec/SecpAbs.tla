------------------------------ MODULE SecpAbs ------------------------------
(***************************************************************************)
(* THE specification of the library, as a state machine.                    *)
(*                                                                         *)
(* State: a pool of element variables E[1..NE], each a point of the group   *)
(* (a record [inf, x, y] of Curve), and a pool of scalar variables          *)
(* S[1..NS], each a residue mod n.  One action per public API call; the     *)
(* receiver and the arguments are *variable ids*, so aliasing (receiver =   *)
(* argument) is a parameter choice and not a special case.  Every action    *)
(* carries its frame condition: no variable other than the receiver         *)
(* changes.  Calls that return something take the returned value as a       *)
(* parameter (ret / err) and constrain it.                                  *)
(*                                                                         *)
(* Actions are relations between the unprimed and the primed state; they    *)
(* never compute an inverse or a square root.  They are used in two ways:   *)
(*  - MC_* (toy carriers): TLC enumerates candidate successor values and    *)
(*    the action filters them -- exhaustive exploration of histories;       *)
(*  - TraceSecp (256-bit carriers): the successor state is bound to what    *)
(*    the real code was observed to hold after the call and the action is   *)
(*    evaluated as a predicate -- conformance of the implementation.        *)
(*                                                                         *)
(* The mathematics is supplied by operator constants so that the same text  *)
(* is evaluated at both scales (see Curve, Sec1, Scalars, H2C).             *)
(***************************************************************************)
EXTENDS Integers, Sequences

CONSTANTS
  NE, NS,
  \* ---- group (module Curve)
  Inf, BaseG, Neg(_), IsSum(_, _, _), IsMul(_, _, _),    \* IsMul(k, P, R): R = [k]P
  \* ---- SEC1 (module Sec1); decoders return [res, p] and take a square-root witness
  PEncode(_), PEncodeUnc(_), PXCoord(_), PHex(_),
  PDecode(_, _), PDecodeCompressed(_, _), PDecodeUncompressed(_), PDecodeCoords(_, _), PDecodeHex(_, _),
  \* ---- scalars (module Scalars)
  RZero, ROne, RMinusOne, RAdd(_, _), RSub(_, _), RMul(_, _), RIsInverse(_, _), RPow(_, _),
  RLessOrEqual(_, _), RBits(_), REncode(_), RHex(_), RDecode(_), RDecodeHex(_), ROfU64(_),
  \* ---- RFC 9380 (module H2C); relations with certificate arguments
  IsHashToGroup(_, _, _, _), IsEncodeToGroup(_, _, _, _), HashToScalarOf(_, _),
  \* ---- Scalar.Random (module RandomSrc): RandomOutcome(bytes) = [panic, v, used]
  RandomOutcome(_)

VARIABLES E, S

vars == << E, S >>
EIds == 1..NE
SIds == 1..NS

\* ---------------------------------------------------------------- frame conditions
FrameE(rs) == \A v \in EIds : v \notin rs => E'[v] = E[v]
FrameS(rs) == \A v \in SIds : v \notin rs => S'[v] = S[v]
NoChange == FrameE({}) /\ FrameS({})
OnlyE(r) == FrameE({r}) /\ FrameS({})
OnlyS(r) == FrameE({}) /\ FrameS({r})

Init == E = [v \in EIds |-> Inf] /\ S = [v \in SIds |-> RZero]

\* ================================================================ elements
\* NewElement() / (*Element).Identity()
EIdentity(r) == E'[r] = Inf /\ OnlyE(r)
\* Base() / (*Element).Base()
EBase(r) == E'[r] = BaseG /\ OnlyE(r)
\* r.Set(a) and r = a.Copy(): afterwards r holds a's value; independence of the copy is the frame
\* condition of every LATER action (mutating r never changes a, and vice versa)
ESet(r, a) == E'[r] = E[a] /\ OnlyE(r)
ECopy(r, a) == ESet(r, a)

EAdd(r, a) == IsSum(E[r], E[a], E'[r]) /\ OnlyE(r)
EAddNil(r) == NoChange
ESubtract(r, a) == IsSum(E[r], Neg(E[a]), E'[r]) /\ OnlyE(r)
ESubtractNil(r) == NoChange
EDouble(r) == IsSum(E[r], E[r], E'[r]) /\ OnlyE(r)
ENegate(r) == E'[r] = Neg(E[r]) /\ OnlyE(r)
EMultiply(r, s) == IsMul(S[s], E[r], E'[r]) /\ OnlyE(r)
EMultiplyNil(r) == E'[r] = Inf /\ OnlyE(r)

\* observers: the state does not change, the returned value is constrained
EEqual(a, b, ret) == ret = (IF E[a] = E[b] THEN 1 ELSE 0) /\ NoChange
EIsIdentity(a, ret) == ret = E[a].inf /\ NoChange
EEncode(a, ret) == ret = PEncode(E[a]) /\ NoChange
EEncodeUncompressed(a, ret) == ret = PEncodeUnc(E[a]) /\ NoChange
EXCoordinate(a, ret) == ret = PXCoord(E[a]) /\ NoChange
EHex(a, ret) == ret = PHex(E[a]) /\ NoChange
EMarshalBinary(a, ret, err) == ret = PEncode(E[a]) /\ err = 0 /\ NoChange

\* decoders: d is the decoder's verdict [res |-> "accept" | "reject", p]; err is 0 (nil error) or 1.
\* Accepted: the receiver becomes exactly that point.  Rejected: error, and the receiver is unchanged.
EDecodeWith(r, d, err) ==
  /\ d.res \in {"accept", "reject"}
  /\ IF d.res = "accept" THEN err = 0 /\ E'[r] = d.p ELSE err = 1 /\ E'[r] = E[r]
  /\ OnlyE(r)
EDecode(r, data, w, err)             == EDecodeWith(r, PDecode(data, w), err)
EUnmarshalBinary(r, data, w, err)    == EDecodeWith(r, PDecode(data, w), err)
EDecodeCompressed(r, data, w, err)   == EDecodeWith(r, PDecodeCompressed(data, w), err)
EDecodeUncompressed(r, data, err)    == EDecodeWith(r, PDecodeUncompressed(data), err)
EDecodeCoordinates(r, xb, yb, err)   == EDecodeWith(r, PDecodeCoords(xb, yb), err)
EDecodeHex(r, str, w, err)           == EDecodeWith(r, PDecodeHex(str, w), err)

\* hashing: an empty (or nil) DST panics and produces nothing; otherwise the RFC 9380 point.
\* cert carries the claimed intermediate points on the isogenous curve (checked, not trusted).
EHashToGroup(r, msg, dst, cert, panicked) ==
  IF Len(dst) = 0 THEN panicked /\ NoChange
  ELSE ~panicked /\ IsHashToGroup(msg, dst, cert, E'[r]) /\ OnlyE(r)
EEncodeToGroup(r, msg, dst, cert, panicked) ==
  IF Len(dst) = 0 THEN panicked /\ NoChange
  ELSE ~panicked /\ IsEncodeToGroup(msg, dst, cert, E'[r]) /\ OnlyE(r)

\* ================================================================ scalars
SZero(r)     == S'[r] = RZero /\ OnlyS(r)          \* also NewScalar()
SOne(r)      == S'[r] = ROne /\ OnlyS(r)
SMinusOne(r) == S'[r] = RMinusOne /\ OnlyS(r)
SSetUInt64(r, u) == S'[r] = ROfU64(u) /\ OnlyS(r)  \* u: the 8 big-endian bytes of the word
SSet(r, a)   == S'[r] = S[a] /\ OnlyS(r)
SSetNil(r)   == S'[r] = RZero /\ OnlyS(r)
SCopy(r, a)  == SSet(r, a)

SAdd(r, a)      == S'[r] = RAdd(S[r], S[a]) /\ OnlyS(r)
SAddNil(r)      == NoChange
SSubtract(r, a) == S'[r] = RSub(S[r], S[a]) /\ OnlyS(r)
SSubtractNil(r) == NoChange
SMultiply(r, a) == S'[r] = RMul(S[r], S[a]) /\ OnlyS(r)
SMultiplyNil(r) == S'[r] = RZero /\ OnlyS(r)
SSquare(r)      == S'[r] = RMul(S[r], S[r]) /\ OnlyS(r)
SInvert(r)      == RIsInverse(S[r], S'[r]) /\ OnlyS(r)
SPow(r, a)      == S'[r] = RPow(S[r], S[a]) /\ OnlyS(r)
SPowNil(r)      == S'[r] = ROne /\ OnlyS(r)

SEqual(a, b, ret)       == ret = (IF S[a] = S[b] THEN 1 ELSE 0) /\ NoChange
SEqualNil(a, ret)       == ret = 0 /\ NoChange
SIsZero(a, ret)         == ret = (S[a] = RZero) /\ NoChange
SIsOne(a, ret)          == ret = (S[a] = ROne) /\ NoChange
SLessOrEqual(a, b, ret) == ret = RLessOrEqual(S[a], S[b]) /\ NoChange
\* condIsZero: the 64-bit condition word is 0
SCSelect(r, condIsZero, a, b, err) == err = 0 /\ S'[r] = (IF condIsZero THEN S[a] ELSE S[b]) /\ OnlyS(r)
SCSelectNil(r, err)     == err = 1 /\ NoChange
SBits(a, ret)           == ret = RBits(S[a]) /\ NoChange

SEncode(a, ret)             == ret = REncode(S[a]) /\ NoChange
SHex(a, ret)                == ret = RHex(S[a]) /\ NoChange
SMarshalBinary(a, ret, err) == ret = REncode(S[a]) /\ err = 0 /\ NoChange
\* d = [err, v]: error class (0 none, 1 empty, 2 length, 3 too big, 4 not hexadecimal) and value.
\* Accepted: the receiver becomes the value.  Rejected: the error class is reported; the statement
\* of the property does not fix the receiver's value after a rejected decode, so it is left free.
\* Class 4 (the string is not hexadecimal at all) only requires SOME error.
SDecodeWith(r, d, err) == /\ (IF d.err = 4 THEN err # 0 ELSE err = d.err)
                          /\ (d.err = 0 => S'[r] = d.v)
                          /\ OnlyS(r)
SDecode(r, data, err)          == SDecodeWith(r, RDecode(data), err)
SUnmarshalBinary(r, data, err) == SDecodeWith(r, RDecode(data), err)
SDecodeHex(r, str, err)        == SDecodeWith(r, RDecodeHex(str), err)

SHashToScalar(r, msg, dst, panicked) ==
  IF Len(dst) = 0 THEN panicked /\ NoChange
  ELSE ~panicked /\ S'[r] = HashToScalarOf(msg, dst) /\ OnlyS(r)

\* Scalar.Random over a scripted entropy source (see RandomSrc): the source is a byte string; either
\* it fails before a usable block was assembled -- panic, receiver untouched -- or the receiver is
\* the first 32-byte block that is non-zero mod n, reduced.
SRandom(r, data, panicked) ==
  LET o == RandomOutcome(data)
  IN  /\ panicked = o.panic
      /\ IF o.panic THEN NoChange ELSE S'[r] = o.v /\ S'[r] # RZero /\ OnlyS(r)

\* ================================================================ properties of every reachable state
\* (stated here; the carriers' own validity predicates are supplied by the instantiating module)
TypeOK(IsPoint(_), IsResidue(_)) ==
  /\ \A v \in EIds : IsPoint(E[v])
  /\ \A v \in SIds : IsResidue(S[v])
=============================================================================
