-------------------------------- MODULE Memo --------------------------------
(***************************************************************************)
(* C16 (and the sequential side of C08/C09): "the package keeps no mutable  *)
(* global state".  The pinned code computes everything per call.  Three     *)
(* independently seeded changes each added a package-level memo of an       *)
(* expensive intermediate (the digest of an oversize DST) and each got it   *)
(* wrong in another way; this module is the design space they came from.    *)
(*                                                                         *)
(* NG goroutines make two calls each; a call has a key (the DST's bytes,    *)
(* held in a buffer the CALLER owns and may edit between its own calls)     *)
(* and must return F(key).  Design:                                         *)
(*   "none"          no memo (the pinned tree)                              *)
(*   "one_section"   one-entry memo, compare + fill + read under ONE lock   *)
(*   "unlocked"      the same without a lock            (seeded C16_r2)     *)
(*   "two_sections"  compare, fill and read-back in separate lock sections  *)
(*                                                       (seeded C16_r4m1)  *)
(*   "by_reference"  memo keyed on the caller's slice (its identity), not   *)
(*                   on a copy of its contents   (seeded C08_r3m1, C09_r3m1)*)
(* Every access to the memo is one step, so TLC explores all interleavings; *)
(* accesses outside a lock are recorded for NoRace as in Conc.              *)
(***************************************************************************)
EXTENDS Integers, Sequences, FiniteSets, TLC

CONSTANTS NG, Keys, Design

F(k) == 10 * k
NoKey == 0
Procs == 1..NG

(* --algorithm memo
variables mKey = NoKey, mRef = 0, mVal = 0,          \* the package-level memo: key (or reference) and value
          lock = 0,
          buf = [g \in Procs |-> NoKey],              \* each caller's own buffer: the key it passes
          readers = {}, writers = {},                  \* goroutines that touched the memo outside a lock
          results = [g \in Procs |-> << >>];          \* << key passed, value returned >> per finished call

macro Acquire() begin await lock = 0; lock := self; end macro;
macro Release() begin lock := 0; end macro;

process g \in Procs
variables cnt = 1, key = NoKey, hit = FALSE, res = 0;
begin
  Next_:
    while cnt <= 2 do
      \* the caller writes the key of this call into ITS buffer (in place: same slice, other contents)
      with k \in Keys do buf[self] := k; key := k; end with;
      Call:
        if Design = "none" then
          res := F(key);
        elsif Design = "one_section" then
          Acquire();
          S1: if mKey # key then mKey := key || mVal := F(key); end if;
              res := mVal;
              Release();
        elsif Design = "unlocked" then
          U1: readers := readers \cup {self}; hit := (mKey = key);
          U2: if ~hit then writers := writers \cup {self}; mKey := key; end if;
          U3: if ~hit then mVal := F(key); end if;
          U4: readers := readers \cup {self}; res := mVal;
        elsif Design = "two_sections" then
          Acquire();
          T1: hit := (mKey = key); Release();
          T2: if ~hit then Acquire(); T3: mKey := key || mVal := F(key); Release(); end if;
          T4: Acquire();
          T5: res := mVal; Release();
        else \* "by_reference": the memo remembers WHICH slice it saw, not what was in it
          Acquire();
          R1: if mRef # self then mRef := self || mVal := F(buf[self]); end if;
              res := mVal;
              Release();
        end if;
      Ret:
        results[self] := Append(results[self], << key, res >>);
        cnt := cnt + 1;
    end while;
end process;
end algorithm; *)
\* BEGIN TRANSLATION (chksum(pcal) = "64951415" /\ chksum(tla) = "61e0dd04")
VARIABLES pc, mKey, mRef, mVal, lock, buf, readers, writers, results, cnt, 
          key, hit, res

vars == << pc, mKey, mRef, mVal, lock, buf, readers, writers, results, cnt, 
           key, hit, res >>

ProcSet == (Procs)

Init == (* Global variables *)
        /\ mKey = NoKey
        /\ mRef = 0
        /\ mVal = 0
        /\ lock = 0
        /\ buf = [g \in Procs |-> NoKey]
        /\ readers = {}
        /\ writers = {}
        /\ results = [g \in Procs |-> << >>]
        (* Process g *)
        /\ cnt = [self \in Procs |-> 1]
        /\ key = [self \in Procs |-> NoKey]
        /\ hit = [self \in Procs |-> FALSE]
        /\ res = [self \in Procs |-> 0]
        /\ pc = [self \in ProcSet |-> "Next_"]

Next_(self) == /\ pc[self] = "Next_"
               /\ IF cnt[self] <= 2
                     THEN /\ \E k \in Keys:
                               /\ buf' = [buf EXCEPT ![self] = k]
                               /\ key' = [key EXCEPT ![self] = k]
                          /\ pc' = [pc EXCEPT ![self] = "Call"]
                     ELSE /\ pc' = [pc EXCEPT ![self] = "Done"]
                          /\ UNCHANGED << buf, key >>
               /\ UNCHANGED << mKey, mRef, mVal, lock, readers, writers, 
                               results, cnt, hit, res >>

Call(self) == /\ pc[self] = "Call"
              /\ IF Design = "none"
                    THEN /\ res' = [res EXCEPT ![self] = F(key[self])]
                         /\ pc' = [pc EXCEPT ![self] = "Ret"]
                         /\ lock' = lock
                    ELSE /\ IF Design = "one_section"
                               THEN /\ lock = 0
                                    /\ lock' = self
                                    /\ pc' = [pc EXCEPT ![self] = "S1"]
                               ELSE /\ IF Design = "unlocked"
                                          THEN /\ pc' = [pc EXCEPT ![self] = "U1"]
                                               /\ lock' = lock
                                          ELSE /\ IF Design = "two_sections"
                                                     THEN /\ lock = 0
                                                          /\ lock' = self
                                                          /\ pc' = [pc EXCEPT ![self] = "T1"]
                                                     ELSE /\ lock = 0
                                                          /\ lock' = self
                                                          /\ pc' = [pc EXCEPT ![self] = "R1"]
                         /\ res' = res
              /\ UNCHANGED << mKey, mRef, mVal, buf, readers, writers, results, 
                              cnt, key, hit >>

S1(self) == /\ pc[self] = "S1"
            /\ IF mKey # key[self]
                  THEN /\ /\ mKey' = key[self]
                          /\ mVal' = F(key[self])
                  ELSE /\ TRUE
                       /\ UNCHANGED << mKey, mVal >>
            /\ res' = [res EXCEPT ![self] = mVal']
            /\ lock' = 0
            /\ pc' = [pc EXCEPT ![self] = "Ret"]
            /\ UNCHANGED << mRef, buf, readers, writers, results, cnt, key, 
                            hit >>

U1(self) == /\ pc[self] = "U1"
            /\ readers' = (readers \cup {self})
            /\ hit' = [hit EXCEPT ![self] = (mKey = key[self])]
            /\ pc' = [pc EXCEPT ![self] = "U2"]
            /\ UNCHANGED << mKey, mRef, mVal, lock, buf, writers, results, cnt, 
                            key, res >>

U2(self) == /\ pc[self] = "U2"
            /\ IF ~hit[self]
                  THEN /\ writers' = (writers \cup {self})
                       /\ mKey' = key[self]
                  ELSE /\ TRUE
                       /\ UNCHANGED << mKey, writers >>
            /\ pc' = [pc EXCEPT ![self] = "U3"]
            /\ UNCHANGED << mRef, mVal, lock, buf, readers, results, cnt, key, 
                            hit, res >>

U3(self) == /\ pc[self] = "U3"
            /\ IF ~hit[self]
                  THEN /\ mVal' = F(key[self])
                  ELSE /\ TRUE
                       /\ mVal' = mVal
            /\ pc' = [pc EXCEPT ![self] = "U4"]
            /\ UNCHANGED << mKey, mRef, lock, buf, readers, writers, results, 
                            cnt, key, hit, res >>

U4(self) == /\ pc[self] = "U4"
            /\ readers' = (readers \cup {self})
            /\ res' = [res EXCEPT ![self] = mVal]
            /\ pc' = [pc EXCEPT ![self] = "Ret"]
            /\ UNCHANGED << mKey, mRef, mVal, lock, buf, writers, results, cnt, 
                            key, hit >>

T1(self) == /\ pc[self] = "T1"
            /\ hit' = [hit EXCEPT ![self] = (mKey = key[self])]
            /\ lock' = 0
            /\ pc' = [pc EXCEPT ![self] = "T2"]
            /\ UNCHANGED << mKey, mRef, mVal, buf, readers, writers, results, 
                            cnt, key, res >>

T2(self) == /\ pc[self] = "T2"
            /\ IF ~hit[self]
                  THEN /\ lock = 0
                       /\ lock' = self
                       /\ pc' = [pc EXCEPT ![self] = "T3"]
                  ELSE /\ pc' = [pc EXCEPT ![self] = "T4"]
                       /\ lock' = lock
            /\ UNCHANGED << mKey, mRef, mVal, buf, readers, writers, results, 
                            cnt, key, hit, res >>

T3(self) == /\ pc[self] = "T3"
            /\ /\ mKey' = key[self]
               /\ mVal' = F(key[self])
            /\ lock' = 0
            /\ pc' = [pc EXCEPT ![self] = "T4"]
            /\ UNCHANGED << mRef, buf, readers, writers, results, cnt, key, 
                            hit, res >>

T4(self) == /\ pc[self] = "T4"
            /\ lock = 0
            /\ lock' = self
            /\ pc' = [pc EXCEPT ![self] = "T5"]
            /\ UNCHANGED << mKey, mRef, mVal, buf, readers, writers, results, 
                            cnt, key, hit, res >>

T5(self) == /\ pc[self] = "T5"
            /\ res' = [res EXCEPT ![self] = mVal]
            /\ lock' = 0
            /\ pc' = [pc EXCEPT ![self] = "Ret"]
            /\ UNCHANGED << mKey, mRef, mVal, buf, readers, writers, results, 
                            cnt, key, hit >>

R1(self) == /\ pc[self] = "R1"
            /\ IF mRef # self
                  THEN /\ /\ mRef' = self
                          /\ mVal' = F(buf[self])
                  ELSE /\ TRUE
                       /\ UNCHANGED << mRef, mVal >>
            /\ res' = [res EXCEPT ![self] = mVal']
            /\ lock' = 0
            /\ pc' = [pc EXCEPT ![self] = "Ret"]
            /\ UNCHANGED << mKey, buf, readers, writers, results, cnt, key, 
                            hit >>

Ret(self) == /\ pc[self] = "Ret"
             /\ results' = [results EXCEPT ![self] = Append(results[self], << key[self], res[self] >>)]
             /\ cnt' = [cnt EXCEPT ![self] = cnt[self] + 1]
             /\ pc' = [pc EXCEPT ![self] = "Next_"]
             /\ UNCHANGED << mKey, mRef, mVal, lock, buf, readers, writers, 
                             key, hit, res >>

g(self) == Next_(self) \/ Call(self) \/ S1(self) \/ U1(self) \/ U2(self)
              \/ U3(self) \/ U4(self) \/ T1(self) \/ T2(self) \/ T3(self)
              \/ T4(self) \/ T5(self) \/ R1(self) \/ Ret(self)

(* Allow infinite stuttering to prevent deadlock on termination. *)
Terminating == /\ \A self \in ProcSet: pc[self] = "Done"
               /\ UNCHANGED vars

Next == (\E self \in Procs: g(self))
           \/ Terminating

Spec == Init /\ [][Next]_vars

Termination == <>(\A self \in ProcSet: pc[self] = "Done")

\* END TRANSLATION 

\* every call returns what it would return if it ran alone
Deterministic == \A p \in Procs : \A i \in 1..Len(results[p]) : results[p][i][2] = F(results[p][i][1])
\* no unsynchronised conflicting accesses to the memo
NoRace == writers = {} \/ Cardinality(readers \cup writers) <= 1
=============================================================================
