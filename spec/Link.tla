-------------------------------- MODULE Link --------------------------------
(***************************************************************************)
(* Property C17: the hashing functions work in ANY program that imports the *)
(* package.                                                                 *)
(*                                                                         *)
(* Go's crypto.Hash.New() looks the implementation up in a process-global   *)
(* registry that is filled by the init functions of the packages that       *)
(* happen to be linked into the binary.  A program is the set Extra of      *)
(* packages it links besides the library; the library itself contributes    *)
(* its own import closure LibClosure (read from the working tree with       *)
(* `go list -deps` when the check runs, per GOOS/GOARCH target, so the      *)
(* model is about the current code).  The hashing API needs every hash in   *)
(* Needs.  A package may also RE-register a hash with its own               *)
(* implementation (crypto.RegisterHash): the registry then still has it.    *)
(*                                                                         *)
(*   Link     the linker fixes the package set                              *)
(*   RunInits every linked package's init registers what it registers       *)
(*   CallHash the program calls HashToGroup / EncodeToGroup / HashToScalar  *)
(***************************************************************************)
EXTENDS Naturals, FiniteSets

CONSTANTS Universe,      \* packages a program might additionally link
          Registers,     \* Registers[p]: hashes p's init puts into the registry
          Platforms,     \* GOOS/GOARCH targets (build constraints can change what is linked)
          LibClosure,    \* LibClosure[pl]: packages linked on pl because the library imports them (transitively)
          Needs          \* hashes the hashing API requests from the registry

VARIABLES platform, extra, registry, phase, outcome
vars == << platform, extra, registry, phase, outcome >>

RegOf(p) == IF p \in DOMAIN Registers THEN Registers[p] ELSE {}

Init == /\ platform \in Platforms
        /\ extra \in SUBSET Universe          \* every program
        /\ registry = {} /\ phase = "linked" /\ outcome = "none"

RunInits == /\ phase = "linked"
            /\ registry' = UNION {RegOf(p) : p \in LibClosure[platform] \cup extra}
            /\ phase' = "running" /\ UNCHANGED << platform, extra, outcome >>

CallHash == /\ phase = "running"
            /\ outcome' = IF Needs \subseteq registry THEN "ok" ELSE "panic"
            /\ phase' = "done" /\ UNCHANGED << platform, extra, registry >>

Next == RunInits \/ CallHash
Spec == Init /\ [][Next]_vars

\* what the model predicts for one program
Predict(pl, ex) == IF Needs \subseteq UNION {RegOf(p) : p \in LibClosure[pl] \cup ex} THEN "ok" ELSE "panic"

\* C17
NeverPanics == phase = "done" => outcome = "ok"
=============================================================================
