-------------------------------- MODULE Link --------------------------------
(***************************************************************************)
(* Property C17: the hashing functions work in ANY program that imports the *)
(* package.                                                                 *)
(*                                                                         *)
(* Go's crypto.Hash.New() looks the implementation up in a process-global   *)
(* registry that is filled by the init functions of the packages that       *)
(* happen to be linked into the binary.  A program is the set Extra of      *)
(* packages it links besides the library; the library itself contributes    *)
(* its own import closure LibClosure (read from the working tree with       *)
(* `go list -deps` when the check runs, per GOOS/GOARCH target, so the      *)
(* model is about the current code).  The hashing API needs every hash in   *)
(* Needs.  A package may also RE-register a hash with its own               *)
(* implementation (crypto.RegisterHash): the registry then still has it.    *)
(*                                                                         *)
(*   Link         the linker fixes the package set                          *)
(*   RunInits     every linked package's init registers what it registers   *)
(*   CallHash     the program calls HashToGroup / EncodeToGroup /           *)
(*                HashToScalar (twice: before and after LateRegister)       *)
(*   LateRegister packages in Late register from main, AFTER the program's  *)
(*                first hashing call (crypto.RegisterHash may be called at  *)
(*                any time; the API may keep nothing from an earlier call   *)
(*                that a later registration invalidates)                    *)
(*                                                                         *)
(* A "platform" is a build configuration: a GOOS/GOARCH target, optionally  *)
(* with a set of build tags ("linux/amd64 +purego") -- every tag that the   *)
(* library's own build constraints mention is a configuration of its own.   *)
(***************************************************************************)
EXTENDS Naturals, FiniteSets

CONSTANTS Universe,      \* packages a program might additionally link
          Registers,     \* Registers[p]: hashes p's init puts into the registry
          Late,          \* the packages of Universe whose registration happens after the first hashing call
          Platforms,     \* build configurations: GOOS/GOARCH [+tags] (build constraints can change what is linked)
          LibClosure,    \* LibClosure[pl]: packages linked on pl because the library imports them (transitively)
          Needs          \* hashes the hashing API requests from the registry

VARIABLES platform, extra, registry, phase, outcome, calls
vars == << platform, extra, registry, phase, outcome, calls >>

RegOf(p) == IF p \in DOMAIN Registers THEN Registers[p] ELSE {}

Init == /\ platform \in Platforms
        /\ extra \in SUBSET Universe          \* every program
        /\ registry = {} /\ phase = "linked" /\ outcome = "none" /\ calls = 0

RunInits == /\ phase = "linked"
            /\ registry' = UNION {RegOf(p) : p \in LibClosure[platform] \cup (extra \ Late)}
            /\ phase' = "running" /\ UNCHANGED << platform, extra, outcome, calls >>

CallHash == /\ phase \in {"running", "late"}
            /\ outcome' = IF outcome # "panic" /\ Needs \subseteq registry THEN "ok" ELSE "panic"
            /\ calls' = calls + 1
            /\ phase' = IF phase = "late" THEN "done" ELSE "called"
            /\ UNCHANGED << platform, extra, registry >>

LateRegister == /\ phase = "called"
                /\ registry' = registry \cup UNION {RegOf(p) : p \in extra \cap Late}
                /\ phase' = "late" /\ UNCHANGED << platform, extra, outcome, calls >>

Next == RunInits \/ CallHash \/ LateRegister
Spec == Init /\ [][Next]_vars

\* what the model predicts for one program
Predict(pl, ex) == IF Needs \subseteq UNION {RegOf(p) : p \in LibClosure[pl] \cup (ex \ Late)} THEN "ok" ELSE "panic"

\* C17
NeverPanics == phase = "done" => outcome = "ok"
=============================================================================
