CONSTANTS
  Q = 79
  NOrd = 67
  Dev = "none"
  L = 7
  LamSample = {1, 2, 39, 78}
SPECIFICATION Spec
INVARIANT AllOK
CHECK_DEADLOCK FALSE
