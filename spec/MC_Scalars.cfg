CONSTANTS
  N = 251
  Dev = "none"
SPECIFICATION Spec
INVARIANT AllOK
CHECK_DEADLOCK FALSE
