------------------------------ MODULE MC_Decode ------------------------------
(***************************************************************************)
(* C03 / C04 at toy scale, exhaustively: field F_Q with ONE-byte            *)
(* coordinates, so a compressed encoding is 2 bytes and an uncompressed one *)
(* 3 bytes.  For EVERY byte string of length 0..3 over the alphabet Alpha:  *)
(*   - Sec1's decoders (the text the trace validator evaluates at 32-byte   *)
(*     coordinates) accept it iff it is the canonical encoding of a group   *)
(*     element -- the accepted set is characterised INDEPENDENTLY as        *)
(*     { Encode(P) } u { EncodeUncompressed(P) } over all points;           *)
(*   - the decoded element re-encodes to the input (round trip), and every  *)
(*     element's encodings decode back to it;                               *)
(*   - a square-root witness always exists, and the verdict does not depend *)
(*     on which valid witness is supplied;                                  *)
(*   - the implementation-shaped decoder (length switch, prefix test, range *)
(*     flag, y^2, sqrt_ratio, parity select) agrees.  Deviations            *)
(*     "decode-no-range-check", "decode-wrong-parity", "decode-hybrid-ok"   *)
(*     must each be caught.                                                 *)
(***************************************************************************)
EXTENDS ToyCodec, TLC

CONSTANT Alpha
VARIABLES s, ok
vars == << s, ok >>

Canonical == {Sec!Encode(P) : P \in AllPoints} \cup {Sec!EncodeUncompressed(P) : P \in AllPoints}

StringOK(bs) ==
  LET outs == {Sec!Decode(bs, w) : w \in Fq}
      good == {o \in outs : o.res # "certfail"}
  IN  /\ good # {}                                              \* a witness exists
      /\ Cardinality(good) = 1                                  \* and the verdict does not depend on it
      /\ LET d == CHOOSE o \in good : TRUE
         IN  /\ (d.res = "accept") = (bs \in Canonical)
             /\ (d.res = "accept" => Sec!Encode(d.p) = bs \/ Sec!EncodeUncompressed(d.p) = bs)
             /\ (d.res = "accept" => TC!OnCurve(d.p))
             /\ ImplDecode(bs) = d
             \* form-specific decoders accept exactly their own form
             /\ (\E w \in Fq : Sec!DecodeCompressed(bs, w).res = "accept") = (\E P \in Points : Sec!Encode(P) = bs)
             /\ (Sec!DecodeUncompressed(bs).res = "accept") = (\E P \in Points : Sec!EncodeUncompressed(P) = bs)

Strings == {<< >>} \cup {<< x >> : x \in Alpha} \cup {<< x, y >> : x \in Alpha, y \in 0..255}
           \cup {<< x, y, z >> : x \in {0, 2, 3, 4, 5, 6, 7}, y \in Alpha, z \in 0..255}

RoundTrips == \A P \in AllPoints :
                /\ \E w \in Fq : Sec!Decode(Sec!Encode(P), w) = [res |-> "accept", p |-> P]
                /\ \E w \in Fq : Sec!Decode(Sec!EncodeUncompressed(P), w) = [res |-> "accept", p |-> P]
                /\ Sec!HexDecode(Sec!HexEncode(Sec!Encode(P))) = Sec!Encode(P)

Init == s = << -1 >> /\ ok = RoundTrips
Next == s = << -1 >> /\ ok /\ \E bs \in Strings : s' = bs /\ ok' = StringOK(bs)
Spec == Init /\ [][Next]_vars
AllOK == ok
=============================================================================
