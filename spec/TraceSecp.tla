----------------------------- MODULE TraceSecp -----------------------------
(***************************************************************************)
(* Trace validation: executions recorded from the real library are checked  *)
(* against SecpAbs instantiated with the 256-bit carriers.                  *)
(*                                                                         *)
(* The trace (ndjson, one public API call per line, written by              *)
(* /verif/harness) logs for every call: the action name, the receiver and   *)
(* argument *variable ids*, the concrete arguments, everything the call     *)
(* returned, and the observable value -- Encode() / IsIdentity() resp.      *)
(* Scalar.Encode() -- of EVERY variable of the pool after the call.         *)
(*                                                                         *)
(* Each line is one step.  The successor state (E', S') is BOUND to the     *)
(* logged observation and the corresponding SecpAbs action is evaluated as  *)
(* a predicate on (E, S, E', S'): the implementation conforms at this step  *)
(* iff the action holds.  Because every event logs the complete projected   *)
(* state the search is linear (one successor per state).  The step is       *)
(* always taken; a disagreement is printed as a DISAGREE record naming the  *)
(* line, the action and the reason, and the rest of that history (up to the *)
(* next Reset event) is skipped because the model no longer knows the       *)
(* state.  Histories are concatenated with Reset events to amortise JVM     *)
(* start-up.                                                                *)
(*                                                                         *)
(* Square roots / inverses are never computed: the trace carries witnesses  *)
(* (the y matching each logged x, intermediate points of the hash-to-curve  *)
(* chain) that are CHECKED.  A witness that proves nothing is a MACHINERY   *)
(* record -- a fault of the harness, never a verdict about the library.     *)
(***************************************************************************)
EXTENDS H2C, Json, IOUtils, TLC

Trace == ndJsonDeserialize(IOEnv.VERIF_TRACE)
Hdr == Trace[1]
NEv == Hdr.ne
NSv == Hdr.ns

VARIABLES E, S,            \* the abstract state of SecpAbs
          l,               \* next trace line
          mode,            \* "run" | "skip" (after a disagreement, until the next Reset)
          nbad, nmach      \* disagreements / machinery faults so far

tvars == << E, S, l, mode, nbad, nmach >>

-----------------------------------------------------------------------------
\* carriers
OS2IPW(bs) == Pad(OS2IP(bs), W)
Bytes32(a) == I2OSP(a, 32)
BytesLtP(bs) == Len(bs) = 32 /\ Lt(OS2IP(bs), P_m)
BytesLtN(bs) == Len(bs) = 32 /\ Lt(OS2IP(bs), N_m)
NMinusOne == Sub(N_m, FromIntW(1))

Sec == INSTANCE Sec1 WITH CL <- 32, FOfBytes <- OS2IPW, InRange <- BytesLtP, FBytes <- Bytes32,
                          FSgn0 <- PSgn0, FSqr <- PSqr, FNeg <- PNeg, FZero <- PZero,
                          G <- C!G, Inf <- C!Inf, Pt <- C!Pt

Sc == INSTANCE Scalars WITH RAdd <- NAdd, RSub <- NSub, RMul <- NMul, RZero <- NZero, ROne <- NOne,
                            RMinusOne <- NMinusOne, RLe <- Le, RBit <- Bit, NBits <- 256, SL <- 32,
                            ROfBytes <- OS2IPW, RInRange <- BytesLtN, RBytes <- Bytes32

BlockResidue(b) == Mod(OS2IP(b), NM)
Rnd == INSTANCE RandomSrc WITH BL <- 32, ROfBlock <- BlockResidue, RZero <- NZero

\* [k]P = R, by double-and-add over the significant bits of k in the spec's own Jacobian formulas
TopBit(k) == LET n == SigLen(k, Len(k))
             IN  IF n = 0 THEN -1
                 ELSE 12 * (n - 1) + (CHOOSE b \in 0..11 : k[n] \div Pow2(b) = 1)
BitsMSB(k) == LET t == TopBit(k) IN [j \in 1..(t + 1) |-> Bit(k, t + 1 - j)]
IsMulBig(k, P, R) == C!JEqualsAffine(C!SMulBits(BitsMSB(k), P), R)

HexOfPoint(P) == Sec!HexEncode(Sec!Encode(P))
ScDecodeHex(cs) == IF Sec!HexOk(cs) THEN Sc!Decode(Sec!HexDecode(cs)) ELSE [err |-> 4, v |-> NZero]
ScHex(v) == Sec!HexEncode(Bytes32(v))
OfU64(u) == OS2IPW(u)
IsH2G(msg, dst, cert, P) == IsHashToCurve(msg, dst, cert.q0, cert.q1, cert.r, P)
IsE2G(msg, dst, cert, P) == IsEncodeToCurve(msg, dst, cert.q0, P)

Abs == INSTANCE SecpAbs WITH
  NE <- NEv, NS <- NSv,
  Inf <- C!Inf, BaseG <- BaseG, Neg <- C!Neg, IsSum <- C!IsSum, IsMul <- IsMulBig,
  PEncode <- Sec!Encode, PEncodeUnc <- Sec!EncodeUncompressed, PXCoord <- Sec!XCoordinate, PHex <- HexOfPoint,
  PDecode <- Sec!Decode, PDecodeCompressed <- Sec!DecodeCompressed, PDecodeUncompressed <- Sec!DecodeUncompressed,
  PDecodeCoords <- Sec!DecodeCoordinates, PDecodeHex <- Sec!DecodeHex,
  RZero <- NZero, ROne <- NOne, RMinusOne <- NMinusOne, RAdd <- NAdd, RSub <- NSub, RMul <- NMul,
  RIsInverse <- Sc!IsInverse, RPow <- Sc!Pow, RLessOrEqual <- Sc!LessOrEqual, RBits <- Sc!Bits,
  REncode <- Bytes32, RHex <- ScHex, RDecode <- Sc!Decode, RDecodeHex <- ScDecodeHex, ROfU64 <- OfU64,
  IsHashToGroup <- IsH2G, IsEncodeToGroup <- IsE2G, HashToScalarOf <- HashToScalar,
  RandomOutcome <- Rnd!Outcome

-----------------------------------------------------------------------------
\* reading the logged observation
Ev == Trace[l]
Junk == [inf |-> FALSE, x |-> PZero, y |-> PZero]        \* placeholder for "not a group element"

\* obs.E[v] = [enc: Encode(), id: IsIdentity(), y: witness bytes, sq: witness claims y^2 = g(x)]
\* result: [st |-> "ok" | "invalid" | "cert", p |-> point, why |-> text]
ReadPointEnc(o, cur) ==
  IF o.id = cur.inf /\ o.enc = Sec!Encode(cur)
  THEN [st |-> "ok", p |-> cur, why |-> ""]                                   \* unchanged: nothing to re-check
  ELSE IF o.id
  THEN (IF o.enc = << 0 >> THEN [st |-> "ok", p |-> C!Inf, why |-> ""]
        ELSE [st |-> "invalid", p |-> Junk, why |-> "IsIdentity is true but Encode is not 00"])
  ELSE IF Len(o.enc) # 33 \/ o.enc[1] \notin {2, 3}
  THEN [st |-> "invalid", p |-> Junk, why |-> "Encode of a non-identity element is not 33 bytes 02/03||x"]
  ELSE LET xb == SubSeq(o.enc, 2, 33)
       IN  IF ~BytesLtP(xb) THEN [st |-> "invalid", p |-> Junk, why |-> "encoded x >= p"]
           ELSE IF ~BytesLtP(o.y) THEN [st |-> "cert", p |-> Junk, why |-> "witness y >= p"]
           ELSE LET px == OS2IPW(xb)  w == OS2IPW(o.y)  g == C!G(px)
                IN  IF PSqr(w) = g
                    THEN [st |-> "ok", p |-> C!Pt(px, IF PSgn0(w) = o.enc[1] % 2 THEN w ELSE PNeg(w)), why |-> ""]
                    ELSE IF g # PZero /\ PSqr(w) = PNeg(g)
                    THEN [st |-> "invalid", p |-> Junk, why |-> "encoded x is not the abscissa of a curve point"]
                    ELSE [st |-> "cert", p |-> Junk, why |-> "witness proves nothing"]

\* When the build lets the harness read them, obs.E[v] also carries the STORED coordinates (sx, sy, sz: limbs as 32
\* big-endian bytes) and an untrusted affine certificate (ax, ay).  The element is then what the stored coordinates
\* represent -- X = sx * 2^-256 etc., (X : Y : Z) -- whatever Encode and IsIdentity say: those become observers that
\* are themselves checked ("element-encode-observer", "isidentity-observer"), and the history goes on from the stored value.
\* The point Encode reports serves as the certificate (x * Z = X, y * Z = Y: one solution); only when it fails is the
\* harness's own certificate looked at.
HasRaw(o) == "sz" \in DOMAIN o
RawCoord(bs) == PMul(OS2IPW(bs), RInvP)
ReadPoint(o, cur) ==
  LET viaEnc == ReadPointEnc(o, cur) IN
  IF ~HasRaw(o) \/ viaEnc.st = "cert" THEN viaEnc
  ELSE LET X == RawCoord(o.sx)  Y == RawCoord(o.sy)  Z == RawCoord(o.sz) IN
       IF viaEnc.st = "ok" /\ (IF Z = PZero THEN viaEnc.p.inf ELSE ~viaEnc.p.inf /\ PMul(viaEnc.p.x, Z) = X /\ PMul(viaEnc.p.y, Z) = Y)
       THEN viaEnc
       ELSE IF Z = PZero
       THEN [st |-> IF o.id THEN "element-encode-observer" ELSE "isidentity-observer", p |-> C!Inf, why |-> "stored Z = 0"]
       ELSE IF ~(BytesLtP(o.ax) /\ BytesLtP(o.ay)) THEN [st |-> "cert", p |-> Junk, why |-> "no affine certificate"]
       ELSE LET ax == OS2IPW(o.ax)  ay == OS2IPW(o.ay) IN
            IF ~(PMul(ax, Z) = X /\ PMul(ay, Z) = Y) THEN [st |-> "cert", p |-> Junk, why |-> "affine certificate does not fit the stored coordinates"]
            \* stored coordinates that are not those of any curve point under this reading: the reading does not apply
            \* (the harness tests it on known values when it starts; this is the same caution per element) -- Encode decides
            ELSE IF ~C!OnCurve(C!Pt(ax, ay)) THEN viaEnc
            ELSE [st |-> IF o.id THEN "isidentity-observer" ELSE "element-encode-observer", p |-> C!Pt(ax, ay), why |-> "stored coordinates"]

ObsE == Conc([v \in 1..NEv |-> ReadPoint(Ev.obs.E[v], E[v])])
\* obs.S[v] = Scalar.Encode() bytes
\* obs.Seq[v] = the stored representation equals the canonical one of that value (probe through Equal)
\* obs.Sl[v] (when the build lets the harness read them) = the STORED limbs m of the scalar, as 32 big-endian bytes:
\* the value is then m * 2^-256 mod n whatever Encode says, and Encode / Equal become observers that are
\* themselves checked against it ("encode-observer", "equal-observer") without stopping the history
ReadScalar(bs, canon, sl) ==
  IF Len(sl) = 32
  THEN IF ~Lt(OS2IP(sl), N_m) THEN [st |-> "invalid", v |-> NZero]
       ELSE LET val == NMul(OS2IPW(sl), RInvN)
            IN  IF BytesLtN(bs) /\ OS2IPW(bs) = val
                THEN [st |-> IF canon = 1 THEN "ok" ELSE "equal-observer", v |-> val]
                ELSE [st |-> "encode-observer", v |-> val]
  ELSE IF BytesLtN(bs) /\ canon = 1 THEN [st |-> "ok", v |-> OS2IPW(bs)] ELSE [st |-> "invalid", v |-> NZero]
HasSl == "Sl" \in DOMAIN Ev.obs
ObsS == Conc([v \in 1..NSv |-> ReadScalar(Ev.obs.S[v], Ev.obs.Seq[v], IF HasSl THEN Ev.obs.Sl[v] ELSE << >>)])
ObserverOff(st) == st \in {"encode-observer", "equal-observer", "isidentity-observer", "element-encode-observer"}

PointOfBytes(xb, yb) == C!Pt(OS2IPW(xb), OS2IPW(yb))     \* certificates on E'
HCert(c) == [q0 |-> PointOfBytes(c.q0x, c.q0y),
             q1 |-> IF Len(c.q1x) = 0 THEN C!Inf ELSE PointOfBytes(c.q1x, c.q1y),
             r  |-> IF Len(c.rx) = 0 THEN C!Inf ELSE PointOfBytes(c.rx, c.ry)]
AllZero(bs) == \A i \in 1..Len(bs) : bs[i] = 0

-----------------------------------------------------------------------------
\* the SecpAbs action an event stands for, as a predicate over (E, S, E', S')
Holds(e) ==
  CASE e.op = "ENew"          -> Abs!EIdentity(e.r)
    [] e.op = "EIdentity"     -> Abs!EIdentity(e.r)
    [] e.op = "EBase"         -> Abs!EBase(e.r)
    [] e.op = "ESet"          -> Abs!ESet(e.r, e.a)
    [] e.op = "ECopy"         -> Abs!ECopy(e.r, e.a)
    [] e.op = "EAdd"          -> Abs!EAdd(e.r, e.a)
    [] e.op = "EAddNil"       -> Abs!EAddNil(e.r)
    [] e.op = "ESub"          -> Abs!ESubtract(e.r, e.a)
    [] e.op = "ESubNil"       -> Abs!ESubtractNil(e.r)
    [] e.op = "EDouble"       -> Abs!EDouble(e.r)
    [] e.op = "ENegate"       -> Abs!ENegate(e.r)
    [] e.op = "EMul"          -> Abs!EMultiply(e.r, e.s)
    [] e.op = "EMulNil"       -> Abs!EMultiplyNil(e.r)
    [] e.op = "EEqual"        -> Abs!EEqual(e.a, e.b, e.ret)
    [] e.op = "EIsIdentity"   -> Abs!EIsIdentity(e.a, e.ret)
    [] e.op = "EEncode"       -> Abs!EEncode(e.a, e.ret)
    [] e.op = "EEncodeUnc"    -> Abs!EEncodeUncompressed(e.a, e.ret)
    [] e.op = "EXCoord"       -> Abs!EXCoordinate(e.a, e.ret)
    [] e.op = "EHex"          -> Abs!EHex(e.a, e.ret)
    [] e.op = "EMarshal"      -> Abs!EMarshalBinary(e.a, e.ret, e.err)
    [] e.op = "EDecode"       -> Abs!EDecode(e.r, e.data, OS2IPW(e.w), e.err)
    [] e.op = "EUnmarshal"    -> Abs!EUnmarshalBinary(e.r, e.data, OS2IPW(e.w), e.err)
    [] e.op = "EDecodeComp"   -> Abs!EDecodeCompressed(e.r, e.data, OS2IPW(e.w), e.err)
    [] e.op = "EDecodeUnc"    -> Abs!EDecodeUncompressed(e.r, e.data, e.err)
    [] e.op = "EDecodeCoords" -> Abs!EDecodeCoordinates(e.r, e.x, e.y, e.err)
    [] e.op = "EDecodeHex"    -> Abs!EDecodeHex(e.r, e.data, OS2IPW(e.w), e.err)
    [] e.op = "EHashToGroup"  -> Abs!EHashToGroup(e.r, e.msg, e.dst, HCert(e.cert), e.panic)
    [] e.op = "EEncodeToGroup" -> Abs!EEncodeToGroup(e.r, e.msg, e.dst, HCert(e.cert), e.panic)
    \* accessor (not public API): put a chosen projective representation / rescale it
    [] e.op = "ESetRaw"       -> C!HRepresents(<< OS2IPW(e.x), OS2IPW(e.y), OS2IPW(e.z) >>, E'[e.r]) /\ Abs!OnlyE(e.r)
    [] e.op = "ERescale"      -> ~AllZero(e.lam) /\ Abs!NoChange
    [] e.op = "SNew"          -> Abs!SZero(e.r)
    [] e.op = "SZero"         -> Abs!SZero(e.r)
    [] e.op = "SOne"          -> Abs!SOne(e.r)
    [] e.op = "SMinusOne"     -> Abs!SMinusOne(e.r)
    [] e.op = "SSetU64"       -> Abs!SSetUInt64(e.r, e.u)
    [] e.op = "SSet"          -> Abs!SSet(e.r, e.a)
    [] e.op = "SSetNil"       -> Abs!SSetNil(e.r)
    [] e.op = "SCopy"         -> Abs!SCopy(e.r, e.a)
    [] e.op = "SAdd"          -> Abs!SAdd(e.r, e.a)
    [] e.op = "SAddNil"       -> Abs!SAddNil(e.r)
    [] e.op = "SSub"          -> Abs!SSubtract(e.r, e.a)
    [] e.op = "SSubNil"       -> Abs!SSubtractNil(e.r)
    [] e.op = "SMul"          -> Abs!SMultiply(e.r, e.a)
    [] e.op = "SMulNil"       -> Abs!SMultiplyNil(e.r)
    [] e.op = "SSquare"       -> Abs!SSquare(e.r)
    [] e.op = "SInvert"       -> Abs!SInvert(e.r)
    [] e.op = "SPow"          -> Abs!SPow(e.r, e.a)
    [] e.op = "SPowNil"       -> Abs!SPowNil(e.r)
    [] e.op = "SEqual"        -> Abs!SEqual(e.a, e.b, e.ret)
    [] e.op = "SEqualNil"     -> Abs!SEqualNil(e.a, e.ret)
    [] e.op = "SIsZero"       -> Abs!SIsZero(e.a, e.ret)
    [] e.op = "SIsOne"        -> Abs!SIsOne(e.a, e.ret)
    [] e.op = "SLessOrEqual"  -> Abs!SLessOrEqual(e.a, e.b, e.ret)
    [] e.op = "SCSelect"      -> Abs!SCSelect(e.r, AllZero(e.cond), e.a, e.b, e.err)
    [] e.op = "SCSelectNil"   -> Abs!SCSelectNil(e.r, e.err)
    [] e.op = "SBits"         -> Abs!SBits(e.a, e.ret)
    [] e.op = "SEncode"       -> Abs!SEncode(e.a, e.ret)
    [] e.op = "SHex"          -> Abs!SHex(e.a, e.ret)
    [] e.op = "SMarshal"      -> Abs!SMarshalBinary(e.a, e.ret, e.err)
    [] e.op = "SDecode"       -> Abs!SDecode(e.r, e.data, e.err)
    [] e.op = "SUnmarshal"    -> Abs!SUnmarshalBinary(e.r, e.data, e.err)
    [] e.op = "SDecodeHex"    -> Abs!SDecodeHex(e.r, e.data, e.err)
    [] e.op = "SErrClasses"   -> e.distinct /\ Abs!NoChange      \* the three decode errors are pairwise distinct
    [] e.op = "SHashToScalar" -> Abs!SHashToScalar(e.r, e.msg, e.dst, e.panic)
    [] e.op = "SRandom"       -> Abs!SRandom(e.r, e.data, e.panic)
    \* accessor: set a scalar from a canonical integer (setup only)
    [] e.op = "SSetInt"       -> BytesLtN(e.v) /\ S'[e.r] = OS2IPW(e.v) /\ Abs!OnlyS(e.r)
    \* concurrency harness: shared, read-only values were placed in pool slots (any valid values)
    [] e.op = "Adopt"         -> TRUE
    \* a data race reported by the Go race detector while the histories of this run executed
    [] e.op = "RaceReport"    -> FALSE
    \* package constants
    [] e.op = "Order"         -> e.ret = Bytes32(N_m) /\ Abs!NoChange
    [] e.op = "Lengths"       -> e.scalar = 32 /\ e.element = 33 /\ Abs!NoChange
    \* RFC 9380 8.7: the suite identifier "secp256k1_XMD:SHA-256_SSWU_RO_"
    [] e.op = "Ciphersuite"   -> e.ret = <<115, 101, 99, 112, 50, 53, 54, 107, 49, 95, 88, 77, 68, 58, 83, 72, 65, 45, 50, 53, 54, 95, 83, 83, 87, 85, 95, 82, 79, 95>> /\ Abs!NoChange

\* a decoder witness that proves nothing (Sec1!CertFail) is a harness fault
DecodeCertFails(e) ==
  CASE e.op \in {"EDecode", "EUnmarshal"} -> Sec!Decode(e.data, OS2IPW(e.w)).res = "certfail"
    [] e.op = "EDecodeComp" -> Sec!DecodeCompressed(e.data, OS2IPW(e.w)).res = "certfail"
    [] e.op = "EDecodeHex"  -> Sec!DecodeHex(e.data, OS2IPW(e.w)).res = "certfail"
    [] OTHER -> FALSE

\* which variables the call may change (for the finer "frame" diagnosis)
ElemOps == {"ENew", "EIdentity", "EBase", "ESet", "ECopy", "EAdd", "ESub", "EDouble", "ENegate", "EMul", "EMulNil",
            "EDecode", "EUnmarshal", "EDecodeComp", "EDecodeUnc", "EDecodeCoords", "EDecodeHex",
            "EHashToGroup", "EEncodeToGroup", "ESetRaw"}
ScalOps == {"SNew", "SZero", "SOne", "SMinusOne", "SSetU64", "SSet", "SSetNil", "SCopy", "SAdd", "SSub", "SMul", "SMulNil",
            "SSquare", "SInvert", "SPow", "SPowNil", "SCSelect", "SDecode", "SUnmarshal", "SDecodeHex",
            "SHashToScalar", "SRandom", "SSetInt"}
RecvE(e) == IF e.op \in ElemOps THEN {e.r} ELSE IF e.op = "Adopt" THEN 1..NEv ELSE {}
RecvS(e) == IF e.op \in ScalOps THEN {e.r} ELSE IF e.op = "Adopt" THEN 1..NSv ELSE {}

-----------------------------------------------------------------------------
TraceInit ==
  /\ Hdr.op = "Header"
  /\ E = Conc([v \in 1..NEv |-> C!Inf])
  /\ S = Conc([v \in 1..NSv |-> NZero])
  /\ l = 2 /\ mode = "run" /\ nbad = 0 /\ nmach = 0

\* A new history starts: the harness re-created the pool with NewElement() / NewScalar().
\* (TLC re-evaluates an action-level definition at every use; binding the decoded observation with
\* "\E oe \in {ObsE}" evaluates it once per step.)
ResetStep ==
  \E oe \in {ObsE}, os \in {ObsS} :
  /\ E' = Conc([v \in 1..NEv |-> oe[v].p])
  /\ S' = Conc([v \in 1..NSv |-> os[v].v])
  /\ LET good == /\ \A v \in 1..NEv : oe[v].st = "ok" /\ oe[v].p = C!Inf
                 /\ \A v \in 1..NSv : os[v].st = "ok" /\ os[v].v = NZero
     IN  /\ (~good => PrintT(<< "DISAGREE", l, "Reset", "state", "a fresh element is not the identity or a fresh scalar is not 0" >>))
         /\ mode' = IF good THEN "run" ELSE "skip"
         /\ nbad' = IF good THEN nbad ELSE nbad + 1
         /\ nmach' = nmach

Verdict(oe, os) ==
  IF \E v \in 1..NEv : oe[v].st = "cert"
    THEN << "MACHINERY", "witness", (CHOOSE v \in 1..NEv : oe[v].st = "cert") >>
  ELSE IF DecodeCertFails(Ev)
    THEN << "MACHINERY", "witness", 0 >>
  ELSE IF \E v \in 1..NEv : oe[v].st = "invalid"
    THEN LET v == CHOOSE v \in 1..NEv : oe[v].st = "invalid"
         IN  << "DISAGREE", IF v \in RecvE(Ev) THEN "invalid-result" ELSE "invalid-frame", << v, oe[v].why >> >>
  ELSE IF \E v \in 1..NSv : os[v].st = "invalid"
    THEN << "DISAGREE", "noncanonical-scalar", (CHOOSE v \in 1..NSv : os[v].st = "invalid") >>
  ELSE IF ~(Abs!FrameE(RecvE(Ev)) /\ Abs!FrameS(RecvS(Ev)))
    THEN << "DISAGREE", "frame", << {v \in 1..NEv : v \notin RecvE(Ev) /\ E'[v] # E[v]},
                                   {v \in 1..NSv : v \notin RecvS(Ev) /\ S'[v] # S[v]} >> >>
  ELSE IF ~Holds(Ev)
    \* for the accessor events the observation itself is the subject: say which observer is off
    THEN << "DISAGREE", IF Ev.op = "ESetRaw" /\ Ev.obs.E[Ev.r].id # AllZero(Ev.z) THEN "isidentity-observer"
                        ELSE IF Ev.op = "ERescale" /\ Ev.obs.E[Ev.r].id # E[Ev.r].inf THEN "isidentity-observer"
                        ELSE "result", 0 >>
  \* the call itself is right about the stored coordinates; Encode / IsIdentity are wrong about an element it wrote
  ELSE IF \E v \in 1..NEv : ObserverOff(oe[v].st) /\ (v \in RecvE(Ev) \/ E'[v] # E[v])
    THEN LET v == CHOOSE v \in 1..NEv : ObserverOff(oe[v].st) /\ (v \in RecvE(Ev) \/ E'[v] # E[v])
         IN  << "DISAGREE", oe[v].st, << v, "element" >> >>
  \* the call itself is right about the stored values; Encode / Equal are wrong about a scalar it wrote
  ELSE IF \E v \in 1..NSv : ObserverOff(os[v].st) /\ (v \in RecvS(Ev) \/ S'[v] # S[v])
    THEN LET v == CHOOSE v \in 1..NSv : ObserverOff(os[v].st) /\ (v \in RecvS(Ev) \/ S'[v] # S[v])
         IN  << "DISAGREE", os[v].st, v >>
  ELSE << "OK", "", 0 >>

RunStep ==
  \E oe \in {ObsE}, os \in {ObsS} :
  /\ E' = Conc([v \in 1..NEv |-> oe[v].p])
  /\ S' = Conc([v \in 1..NSv |-> os[v].v])
  /\ \E verdict \in {Verdict(oe, os)} :
         /\ (verdict[1] # "OK" => PrintT(<< verdict[1], l, Ev.op, verdict[2], verdict[3] >>))
         /\ mode' = IF verdict[1] = "OK" \/ ObserverOff(verdict[2]) THEN "run" ELSE "skip"    \* the state is known from the stored limbs: go on
         /\ nbad' = IF verdict[1] = "DISAGREE" THEN nbad + 1 ELSE nbad
         /\ nmach' = IF verdict[1] = "MACHINERY" THEN nmach + 1 ELSE nmach

SkipStep == UNCHANGED << E, S, mode, nbad, nmach >>

TraceNext ==
  /\ l <= Len(Trace)
  /\ l' = l + 1
  /\ IF Ev.op = "Reset" THEN ResetStep
     ELSE IF Ev.op = "Adopt" THEN RunStep              \* a new history whose initial values are given
     ELSE IF mode = "skip" THEN SkipStep
     ELSE RunStep

TraceSpec == TraceInit /\ [][TraceNext]_tvars

\* printed once, in the final state: lines consumed, disagreements, machinery faults
Finished == l = Len(Trace) + 1 => PrintT(<< "TRACE-END", Len(Trace), nbad, nmach >>)

\* every element of the abstract state is a point of the curve, every scalar a canonical residue
Valid == /\ \A v \in 1..NEv : E[v] = Junk \/ C!OnCurve(E[v])
         /\ \A v \in 1..NSv : InZn(S[v])

\* the whole trace was consumed (TraceInit consumes the header line)
TraceAccepted == TLCGet("stats").diameter = Len(Trace)
=============================================================================
