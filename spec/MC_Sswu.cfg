CONSTANTS
  Q = 43
  TA = 1
  TB = 3
  TZ = 22
SPECIFICATION Spec
INVARIANT AllOK
CHECK_DEADLOCK FALSE
