------------------------------- MODULE Sha256 -------------------------------
(***************************************************************************)
(* FIPS 180-4 SHA-256 in plain TLA+, evaluated by TLC.  TLC integers are    *)
(* 32-bit signed, so a 32-bit word is a pair << high 16 bits, low 16 bits >>*)
(* and rotations work on halves.  About 35 ms per 64-byte block.            *)
(* Checked against the FIPS known answers by MC_SelfTest.                   *)
(***************************************************************************)
EXTENDS Integers, Sequences, SequencesExt, Bitwise, Sha256K

LOCAL H == 65536
LOCAL P2(k) == CASE k = 0 -> 1 [] k = 1 -> 2 [] k = 2 -> 4 [] k = 3 -> 8 [] k = 4 -> 16
                 [] k = 5 -> 32 [] k = 6 -> 64 [] k = 7 -> 128 [] k = 8 -> 256 [] k = 9 -> 512
                 [] k = 10 -> 1024 [] k = 11 -> 2048 [] k = 12 -> 4096 [] k = 13 -> 8192
                 [] k = 14 -> 16384 [] k = 15 -> 32768 [] k = 16 -> 65536

WXor(a, b) == << a[1] ^^ b[1], a[2] ^^ b[2] >>
WAnd(a, b) == << a[1] & b[1], a[2] & b[2] >>
WNot(a)    == << 65535 - a[1], 65535 - a[2] >>
WAdd(a, b) == LET lo == a[2] + b[2] IN << (a[1] + b[1] + (lo \div H)) % H, lo % H >>

\* rotate / shift right by 0 < n < 32
LOCAL RotrSmall(a, n) ==        \* 0 <= n < 16
  IF n = 0 THEN a
  ELSE << (a[1] \div P2(n)) + (a[2] % P2(n)) * P2(16 - n),
          (a[2] \div P2(n)) + (a[1] % P2(n)) * P2(16 - n) >>
Rotr(a, n) == IF n < 16 THEN RotrSmall(a, n) ELSE RotrSmall(<< a[2], a[1] >>, n - 16)
Shr(a, n) ==                    \* 0 < n < 16
  << a[1] \div P2(n), (a[2] \div P2(n)) + (a[1] % P2(n)) * P2(16 - n) >>

Ch(x, y, z)  == WXor(WAnd(x, y), WAnd(WNot(x), z))
Maj(x, y, z) == WXor(WXor(WAnd(x, y), WAnd(x, z)), WAnd(y, z))
BSig0(x) == WXor(WXor(Rotr(x, 2), Rotr(x, 13)), Rotr(x, 22))
BSig1(x) == WXor(WXor(Rotr(x, 6), Rotr(x, 11)), Rotr(x, 25))
SSig0(x) == WXor(WXor(Rotr(x, 7), Rotr(x, 18)), Shr(x, 3))
SSig1(x) == WXor(WXor(Rotr(x, 17), Rotr(x, 19)), Shr(x, 10))

\* message schedule of one block (sequence of 16 words) -> 64 words
Schedule(blk) ==
  LET step(ws, t) == Append(ws, WAdd(WAdd(SSig1(ws[t - 2]), ws[t - 7]), WAdd(SSig0(ws[t - 15]), ws[t - 16])))
  IN  FoldLeft(step, blk, [j \in 1..48 |-> 16 + j])

\* one round: st = << a, b, c, d, e, f, g, h >>
LOCAL Round(st, kw) ==          \* kw = K[t] + W[t]
  LET t1 == WAdd(WAdd(st[8], BSig1(st[5])), WAdd(Ch(st[5], st[6], st[7]), kw))
      t2 == WAdd(BSig0(st[1]), Maj(st[1], st[2], st[3]))
  IN  << WAdd(t1, t2), st[1], st[2], st[3], WAdd(st[4], t1), st[5], st[6], st[7] >>

Compress(hv, blk) ==
  LET w  == Schedule(blk)
      kw == [t \in 1..64 |-> WAdd(ShaK[t], w[t])]
      st == FoldLeft(Round, hv, kw)
  IN  [i \in 1..8 |-> WAdd(hv[i], st[i])]

\* padding: bytes -> sequence of blocks of 16 words
Padded(msg) ==
  LET n  == Len(msg)
      nz == (119 - (n % 64)) % 64                   \* zero bytes so that n + 1 + nz + 8 = 0 mod 64
      bitsHi == n \div 536870912                     \* (8 n) div 2^32, n < 2^31
      bitsLo3 == (n % 536870912) \div 2097152        \* byte 3 of 8n : (8n div 2^24) mod 256
      bitsLo2 == (n % 2097152) \div 8192
      bitsLo1 == (n % 8192) \div 32
      bitsLo0 == (n % 32) * 8
  IN  msg \o << 128 >> \o [i \in 1..nz |-> 0] \o << 0, 0, 0, bitsHi, bitsLo3, bitsLo2, bitsLo1, bitsLo0 >>

LOCAL WordAt(bs, k) == << bs[k] * 256 + bs[k + 1], bs[k + 2] * 256 + bs[k + 3] >>
Blocks(pm) == [b \in 1..(Len(pm) \div 64) |-> [j \in 1..16 |-> WordAt(pm, 64 * (b - 1) + 4 * (j - 1) + 1)]]

Digest(hv) == [i \in 1..32 |->
                 LET w == hv[(i + 3) \div 4]  r == (i - 1) % 4
                 IN  CASE r = 0 -> w[1] \div 256 [] r = 1 -> w[1] % 256
                       [] r = 2 -> w[2] \div 256 [] r = 3 -> w[2] % 256]

Sha256(msg) == Digest(FoldLeft(Compress, ShaH0, Blocks(Padded(msg))))
=============================================================================
