------------------------------- MODULE BigNat -------------------------------
(***************************************************************************)
(* Arbitrary-precision naturals for TLC, whose native integers are 32-bit. *)
(* A BigNat is a little-endian sequence of 12-bit limbs (base 4096), so    *)
(* that every column sum of a 22 x 22 limb product stays below 2^31        *)
(* (22 * 4095^2 < 2^29).  A native-integer overflow is a TLC run-time      *)
(* error, never a silent wrap, so an arithmetic slip here cannot corrupt a *)
(* verdict unnoticed.                                                      *)
(*                                                                         *)
(* "Fixed width" values are exactly W = 22 limbs (264 bits); all field     *)
(* elements and scalars are held fixed-width and reduced, so TLA+ equality *)
(* on them is equality of the integers.                                    *)
(***************************************************************************)
EXTENDS Integers, Sequences, SequencesExt, TLC

B  == 4096
LB == 12
W  == 22

Pow2(k) == CASE k = 0 -> 1 [] k = 1 -> 2 [] k = 2 -> 4 [] k = 3 -> 8 [] k = 4 -> 16
             [] k = 5 -> 32 [] k = 6 -> 64 [] k = 7 -> 128 [] k = 8 -> 256 [] k = 9 -> 512
             [] k = 10 -> 1024 [] k = 11 -> 2048 [] k = 12 -> 4096

IsLimbs(a) == \A i \in 1..Len(a) : a[i] \in 0..(B-1)

(***************************************************************************)
(* TLC evaluates a function constructor [i \in S |-> e] LAZILY: every later  *)
(* application re-evaluates e (measured: a field multiplication on such an  *)
(* operand costs 100x more, because each of its 22 limbs is read 44 times). *)
(* Everything that flows into arithmetic is therefore made a concrete tuple:*)
(* Conc(f) forces a constructed sequence, ZeroN / Pad use SubSeq and \o.    *)
(***************************************************************************)
Conc(f) == f \o << >>
LOCAL Zeros128 == << 0, 0, 0, 0, 0, 0, 0, 0, 0, 0, 0, 0, 0, 0, 0, 0, 0, 0, 0, 0, 0, 0, 0, 0, 0, 0, 0, 0, 0, 0, 0, 0, 0, 0, 0, 0, 0, 0, 0, 0, 0, 0, 0, 0, 0, 0, 0, 0, 0, 0, 0, 0, 0, 0, 0, 0, 0, 0, 0, 0, 0, 0, 0, 0, 0, 0, 0, 0, 0, 0, 0, 0, 0, 0, 0, 0, 0, 0, 0, 0, 0, 0, 0, 0, 0, 0, 0, 0, 0, 0, 0, 0, 0, 0, 0, 0, 0, 0, 0, 0, 0, 0, 0, 0, 0, 0, 0, 0, 0, 0, 0, 0, 0, 0, 0, 0, 0, 0, 0, 0, 0, 0, 0, 0, 0, 0, 0, 0 >>
ZeroN(n) == SubSeq(Zeros128, 1, n)
Pad(a, n) == IF Len(a) >= n THEN SubSeq(a, 1, n) ELSE a \o SubSeq(Zeros128, 1, n - Len(a))   \* truncation is intended when n < Len(a)

\* number of significant limbs
RECURSIVE SigLen(_, _)
SigLen(a, k) == IF k = 0 THEN 0 ELSE IF a[k] # 0 THEN k ELSE SigLen(a, k - 1)
Trim(a) == SubSeq(a, 1, SigLen(a, Len(a)))
IsZeroN(a) == SigLen(a, Len(a)) = 0

\* carry propagation over a sequence of column values (each < 2^31 - 2^19);
\* the result has the same length and the final carry must be 0
LOCAL PropStep(st, c) == LET t == c + st[1] IN << t \div B, Append(st[2], t % B) >>
Carry(cols) ==
  LET st == FoldLeft(PropStep, << 0, << >> >>, cols)
  IN  IF st[1] = 0 THEN st[2] ELSE Assert(FALSE, "BigNat!Carry: overflow of the provided width")

Max2(x, y) == IF x >= y THEN x ELSE y
Min2(x, y) == IF x <= y THEN x ELSE y

\* a + b, result has max(len) + 1 limbs
Add(a, b) ==
  LET n == Max2(Len(a), Len(b)) + 1
  IN  Carry([i \in 1..n |-> (IF i <= Len(a) THEN a[i] ELSE 0) + (IF i <= Len(b) THEN b[i] ELSE 0)])

\* three-way comparison of the integers: -1, 0, 1
RECURSIVE CmpFrom(_, _, _)
CmpFrom(a, b, k) ==
  IF k = 0 THEN 0
  ELSE LET x == IF k <= Len(a) THEN a[k] ELSE 0
           y == IF k <= Len(b) THEN b[k] ELSE 0
       IN  IF x > y THEN 1 ELSE IF x < y THEN -1 ELSE CmpFrom(a, b, k - 1)
Cmp(a, b) == CmpFrom(a, b, Max2(Len(a), Len(b)))
Lt(a, b) == Cmp(a, b) = -1
Le(a, b) == Cmp(a, b) <= 0
EqN(a, b) == Cmp(a, b) = 0

\* a - b for a >= b, result has Len(a) limbs
LOCAL SubStep(st, c) == LET t == c - st[1] IN IF t < 0 THEN << 1, Append(st[2], t + B) >> ELSE << 0, Append(st[2], t) >>
Sub(a, b) ==
  LET st == FoldLeft(SubStep, << 0, << >> >>, [i \in 1..Len(a) |-> a[i] - (IF i <= Len(b) THEN b[i] ELSE 0)])
  IN  IF st[1] = 0 THEN st[2] ELSE Assert(FALSE, "BigNat!Sub: negative result")

\* a * b, result has Len(a) + Len(b) limbs; requires min(Len) <= 127 so that columns fit
LOCAL ColSum(a, b, k) ==
  LET lo == Max2(1, k + 1 - Len(b))
      hi == Min2(k, Len(a))
      RECURSIVE S(_, _)
      S(i, acc) == IF i > hi THEN acc ELSE S(i + 1, acc + a[i] * b[k + 1 - i])
  IN  S(lo, 0)
Mul(a, b) ==
  IF Len(a) = 0 \/ Len(b) = 0 THEN << >>
  ELSE LET n == Len(a) + Len(b)
       IN  Carry([k \in 1..n |-> IF k = n THEN 0 ELSE ColSum(a, b, k)])

\* multiplication by a small native integer 0 <= s < 2^18
MulSmall(a, s) == Carry([i \in 1..(Len(a) + 2) |-> IF i <= Len(a) THEN a[i] * s ELSE 0])

\* native integer 0 <= v < 2^31 as limbs
FromInt(v) == << v % B, (v \div B) % B, v \div (B * B) >>
FromIntW(v) == Pad(FromInt(v), W)

\* value as a native integer (only for values < 2^31; used in self-tests and toy checks)
RECURSIVE ToIntFrom(_, _)
ToIntFrom(a, k) == IF k > Len(a) THEN 0 ELSE a[k] + B * ToIntFrom(a, k + 1)
ToInt(a) == ToIntFrom(Trim(a), 1)

\* bit i (0-based) of a
Bit(a, i) == LET k == (i \div LB) + 1 IN IF k > Len(a) THEN 0 ELSE (a[k] \div Pow2(i % LB)) % 2

\* floor(a / 2^(12 j)) and a mod 2^(12 j)
HighLimbs(a, j) == IF Len(a) <= j THEN << >> ELSE SubSeq(a, j + 1, Len(a))
LowLimbs(a, j) == IF Len(a) <= j THEN a ELSE SubSeq(a, 1, j)

-----------------------------------------------------------------------------
(***************************************************************************)
(* Bytes.  A byte string is a sequence of integers 0..255, big-endian when *)
(* it denotes a number (OS2IP / I2OSP of RFC 8017).                        *)
(***************************************************************************)
IsBytes(s) == \A i \in 1..Len(s) : s[i] \in 0..255

\* OS2IP: big-endian bytes -> limbs; result has 2*ceil(len/3) limbs
OS2IP(bs) ==
  LET n  == Len(bs)
      g  == (n + 2) \div 3
      le(i) == IF i <= n THEN bs[n + 1 - i] ELSE 0     \* i-th little-endian byte, 1-based
  IN  Conc([k \in 1..(2 * g) |->
         LET j == (k + 1) \div 2                         \* group number
             b0 == le(3 * j - 2)  b1 == le(3 * j - 1)  b2 == le(3 * j)
         IN  IF k % 2 = 1 THEN b0 + (b1 % 16) * 256 ELSE (b1 \div 16) + b2 * 16])

\* I2OSP(a, n): the n-byte big-endian string of a (a must fit)
I2OSP(a, n) ==
  LET lim(k) == IF k <= Len(a) THEN a[k] ELSE 0
      le(i) ==                                           \* i-th little-endian byte, 1-based
        LET j == (i + 2) \div 3  r == (i - 1) % 3
            l0 == lim(2 * j - 1)  l1 == lim(2 * j)
        IN  CASE r = 0 -> l0 % 256
              [] r = 1 -> (l0 \div 256) + (l1 % 16) * 16
              [] r = 2 -> l1 \div 16
  IN  Conc([i \in 1..n |-> le(n + 1 - i)])

-----------------------------------------------------------------------------
(***************************************************************************)
(* Arithmetic modulo M = 2^256 - c, for c < 2^130.  A modulus is a record  *)
(*   m    : the modulus, W limbs                                           *)
(*   c    : 2^256 - m, trimmed limbs                                       *)
(*   c264 : 2^264 mod m = 256 * c, trimmed limbs                           *)
(* Reduction folds the part above 2^264 (limb-aligned) until at most W     *)
(* limbs remain, then folds the 8 bits above 2^256, then subtracts m at    *)
(* most a few times.  No division is used.                                 *)
(***************************************************************************)
MkModulus(mW, cT) == [m |-> mW, c |-> cT, c264 |-> Trim(MulSmall(cT, 256))]

RECURSIVE FoldW(_, _)
FoldW(x, M) ==
  LET t == Trim(x)
  IN  IF Len(t) <= W THEN Pad(t, W)
      ELSE FoldW(Add(LowLimbs(t, W), Mul(HighLimbs(t, W), M.c264)), M)

RECURSIVE Fold256(_, _)
Fold256(x, M) ==          \* x has W limbs
  LET top == x[W] \div 16
  IN  IF top = 0 THEN x
      ELSE Fold256(Pad(Trim(Add([x EXCEPT ![W] = x[W] % 16], MulSmall(M.c, top))), W), M)

RECURSIVE CondSub(_, _)
CondSub(x, M) == IF Lt(x, M.m) THEN x ELSE CondSub(Sub(x, M.m), M)

Mod(x, M) == CondSub(Fold256(FoldW(x, M), M), M)

AddM(a, b, M) == LET s == Pad(Add(a, b), W) IN IF Lt(s, M.m) THEN s ELSE CondSub(Fold256(s, M), M)
SubM(a, b, M) == IF Le(b, a) THEN Sub(a, b) ELSE Sub(Pad(Add(a, M.m), W), b)
NegM(a, M)    == IF IsZeroN(a) THEN a ELSE Sub(M.m, a)
MulM(a, b, M) == Mod(Mul(a, b), M)
SqrM(a, M)    == Mod(Mul(a, a), M)

IsReduced(a, M) == Len(a) = W /\ IsLimbs(a) /\ Lt(a, M.m)
=============================================================================
