------------------------------- MODULE Scalars -------------------------------
(***************************************************************************)
(* Semantics of the Scalar type: the ring Z/nZ over an abstract carrier     *)
(* (native integers mod a toy n, or BigNat mod the secp256k1 group order).  *)
(* Values are canonical, so "=" is equality of residues.                    *)
(***************************************************************************)
EXTENDS Integers, Sequences, SequencesExt

CONSTANTS RAdd(_, _), RSub(_, _), RMul(_, _), RZero, ROne, RMinusOne,
          RLe(_, _),            \* canonical integer value of first <= that of second
          RBit(_, _),           \* bit i (0-based) of the canonical integer value
          NBits,                \* number of bits Bits() reports (256 for secp256k1)
          SL,                   \* encoded length in bytes
          ROfBytes(_),          \* big-endian bytes -> residue, defined when RInRange
          RInRange(_),          \* the bytes denote an integer < n
          RBytes(_)             \* residue -> SL big-endian bytes

\* ---- arithmetic (receiver value s, argument value t)
Add(s, t) == RAdd(s, t)
Subtract(s, t) == RSub(s, t)
Multiply(s, t) == RMul(s, t)
Square(s) == RMul(s, s)
\* Invert is specified by its defining relation: 0 |-> 0, otherwise s * s' = 1
IsInverse(s, r) == IF s = RZero THEN r = RZero ELSE RMul(s, r) = ROne
\* s^t by left-to-right square-and-multiply over the NBits bits of t; s^0 = 1 (including 0^0)
Pow(s, t) ==
  LET step(acc, i) == IF RBit(t, i) = 1 THEN RMul(RMul(acc, acc), s) ELSE RMul(acc, acc)
  IN  FoldLeft(step, ROne, [j \in 1..NBits |-> NBits - j])

\* ---- comparisons: results as the API reports them
Equal(s, t) == IF s = t THEN 1 ELSE 0
IsZero(s) == s = RZero
IsOne(s) == s = ROne
LessOrEqual(s, t) == IF RLe(s, t) THEN 1 ELSE 0
\* CSelect: first operand for condition word 0, second operand for every other word.
\* condIsZero is the truth of "the 64-bit condition word is 0".
CSelect(condIsZero, u, v) == IF condIsZero THEN u ELSE v

\* ---- bit expansion
Bits(s) == [k \in 1..NBits |-> RBit(s, k - 1)]       \* entry k is bit k-1

\* ---- codec.  Error classes: 0 none, 1 empty/nil, 2 wrong length, 3 too big, 4 not hexadecimal
Encode(s) == RBytes(s)
Decode(bs) ==
  IF Len(bs) = 0 THEN [err |-> 1, v |-> RZero]
  ELSE IF Len(bs) # SL THEN [err |-> 2, v |-> RZero]
  ELSE IF ~RInRange(bs) THEN [err |-> 3, v |-> RZero]
  ELSE [err |-> 0, v |-> ROfBytes(bs)]
=============================================================================
