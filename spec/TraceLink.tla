----------------------------- MODULE TraceLink -----------------------------
(***************************************************************************)
(* Probe programs -- plain non-test binaries importing the library plus a   *)
(* chosen set of extra packages, for a chosen GOOS/GOARCH -- are built from *)
(* the working tree and run; each run is one trace line                     *)
(* {platform, extra, outcome}.  Checked per line: the property (the outcome *)
(* is "ok"), and the binding of the model to the toolchain (a program for   *)
(* which the model predicts a panic must not succeed).                      *)
(* (The values the probes returned are validated by TraceSecp separately.)  *)
(***************************************************************************)
EXTENDS Link, LinkEnv, Sequences, Json, IOUtils, TLC

Trace == ndJsonDeserialize(IOEnv.VERIF_TRACE)
VARIABLES l, nbad, nmach
tvars == << vars, l, nbad, nmach >>
Ev == Trace[l]
ToSet(s) == {s[i] : i \in 1..Len(s)}

TraceInit == /\ Trace[1].op = "Header" /\ l = 2 /\ nbad = 0 /\ nmach = 0
             /\ platform = "none" /\ extra = {} /\ registry = {} /\ phase = "linked" /\ outcome = "none" /\ calls = 0
TraceNext ==
  /\ l <= Len(Trace) /\ l' = l + 1
  \* one probe = the model's Link ; RunInits ; CallHash ; LateRegister ; CallHash for that program in that configuration
  /\ platform' = Ev.platform
  /\ extra' = ToSet(Ev.extra)
  /\ registry' = UNION {RegOf(p) : p \in LibClosure[platform'] \cup extra'}
  /\ phase' = "done" /\ calls' = 2
  /\ outcome' = Predict(platform', extra')
  /\ IF Ev.outcome # "ok"
     \* the property: hashing works in EVERY program
     THEN /\ PrintT(<< "DISAGREE", l, "Probe", "hashing-panics", << Ev.platform, Ev.extra, Ev.detail >> >>)
          /\ nbad' = nbad + 1 /\ nmach' = nmach
     \* the binding: a program the model says must panic did not -- the model is wrong about the toolchain
     ELSE IF outcome' = "panic"
     THEN /\ PrintT(<< "MACHINERY", l, "Probe", "model-too-pessimistic", << Ev.platform, Ev.extra >> >>)
          /\ nmach' = nmach + 1 /\ nbad' = nbad
     ELSE UNCHANGED << nbad, nmach >>
TraceSpec == TraceInit /\ [][TraceNext]_tvars
Finished == l = Len(Trace) + 1 => PrintT(<< "TRACE-END", Len(Trace), nbad, nmach >>)
TraceAccepted == TLCGet("stats").diameter = Len(Trace)
=============================================================================
