----------------------------- MODULE TraceLink -----------------------------
(***************************************************************************)
(* Probe programs -- plain non-test binaries importing the library plus a   *)
(* chosen set of extra packages -- are built from the working tree and run; *)
(* each run is one trace line {extra, outcome}.  Checked per line:          *)
(*   - the Link model's prediction for that program equals what the real    *)
(*     binary did (the binding of the model to the toolchain: a mismatch is *)
(*     a MACHINERY fault, the model is wrong);                              *)
(*   - the property: the outcome is "ok".                                   *)
(* (The values the probes returned are validated by TraceSecp separately.)  *)
(***************************************************************************)
EXTENDS Link, LinkEnv, Sequences, Json, IOUtils, TLC

Trace == ndJsonDeserialize(IOEnv.VERIF_TRACE)
VARIABLES l, nbad, nmach
tvars == << vars, l, nbad, nmach >>
Ev == Trace[l]
ToSet(s) == {s[i] : i \in 1..Len(s)}

TraceInit == /\ Trace[1].op = "Header" /\ l = 2 /\ nbad = 0 /\ nmach = 0
             /\ extra = {} /\ registry = {} /\ phase = "linked" /\ outcome = "none"
TraceNext ==
  /\ l <= Len(Trace) /\ l' = l + 1
  \* one probe = the model's Link ; RunInits ; CallHash for that program
  /\ extra' = ToSet(Ev.extra)
  /\ registry' = UNION {RegOf(p) : p \in LibClosure \cup extra'}
  /\ phase' = "done"
  /\ outcome' = IF Needs \subseteq registry' THEN "ok" ELSE "panic"
  /\ LET ex == ToSet(Ev.extra)
         predicted == Predict(ex)
     IN  IF predicted # Ev.outcome
         THEN /\ PrintT(<< "MACHINERY", l, "Probe", "model-mismatch", << Ev.extra, predicted, Ev.outcome >> >>)
              /\ nmach' = nmach + 1 /\ nbad' = nbad
         ELSE IF Ev.outcome # "ok"
         THEN /\ PrintT(<< "DISAGREE", l, "Probe", "hashing-panics", << Ev.extra, Ev.detail >> >>)
              /\ nbad' = nbad + 1 /\ nmach' = nmach
         ELSE UNCHANGED << nbad, nmach >>
TraceSpec == TraceInit /\ [][TraceNext]_tvars
Finished == l = Len(Trace) + 1 => PrintT(<< "TRACE-END", Len(Trace), nbad, nmach >>)
TraceAccepted == TLCGet("stats").diameter = Len(Trace)
=============================================================================
