------------------------------- MODULE Curve -------------------------------
(***************************************************************************)
(* Short-Weierstrass curve  y^2 = x^3 + A x + B  over an abstract prime     *)
(* field, given by operator constants.  The module is instantiated         *)
(*   - over native integers modulo a toy prime (exhaustive model checking), *)
(*   - over 256-bit BigNat values modulo p (trace validation against the    *)
(*     real code), for secp256k1 (A = 0, B = 7) and for the 3-isogenous     *)
(*     curve E' of RFC 9380.                                                *)
(* Field elements are in canonical form, so "=" is equality in the field.   *)
(*                                                                         *)
(* The group law is stated three times, independently:                      *)
(*   AddAffine   chord-and-tangent with a field inversion (functional)     *)
(*   IsSum       the same law as an inversion-free relation (what the      *)
(*               trace validator uses: the logged result is bound and the  *)
(*               relation is required)                                     *)
(*   JAdd/JDbl   textbook Jacobian formulas with explicit case analysis,   *)
(*               used by SMul (double-and-add) -- deliberately NOT the     *)
(*               complete projective formulas the implementation uses.     *)
(***************************************************************************)
EXTENDS Integers, Sequences, SequencesExt

CONSTANTS FAdd(_, _), FSub(_, _), FMul(_, _), FNeg(_), FInv(_),
          FZero, FOne, CA, CB

FSqr(a) == FMul(a, a)
FDbl(a) == FAdd(a, a)
FTpl(a) == FAdd(FAdd(a, a), a)

Inf == [inf |-> TRUE, x |-> FZero, y |-> FZero]
Pt(px, py) == [inf |-> FALSE, x |-> px, y |-> py]

\* right-hand side of the curve equation
G(px) == FAdd(FAdd(FMul(FSqr(px), px), FMul(CA, px)), CB)
OnCurve(P) == P.inf \/ FSqr(P.y) = G(P.x)

Neg(P) == IF P.inf THEN Inf ELSE Pt(P.x, FNeg(P.y))

(***************************************************************************)
(* Functional affine law (uses FInv; cheap on toy fields, about a second   *)
(* per call at 256 bits, so trace validation never calls it).              *)
(***************************************************************************)
AddAffine(P, Q) ==
  IF P.inf THEN Q
  ELSE IF Q.inf THEN P
  ELSE IF P.x = Q.x /\ P.y # Q.y THEN Inf
  ELSE IF P.x = Q.x /\ P.y = FZero THEN Inf
  ELSE LET lam == IF P.x = Q.x
                  THEN FMul(FAdd(FTpl(FSqr(P.x)), CA), FInv(FDbl(P.y)))
                  ELSE FMul(FSub(Q.y, P.y), FInv(FSub(Q.x, P.x)))
           x3  == FSub(FSub(FSqr(lam), P.x), Q.x)
       IN  Pt(x3, FSub(FMul(lam, FSub(P.x, x3)), P.y))

(***************************************************************************)
(* Relational law.  With the slope lam = dy/dx not computed:                *)
(*    x3 * dx^2 = dy^2 - (x1 + x2) * dx^2                                   *)
(*    (y3 + y1) * dx = dy * (x1 - x3)                                       *)
(* has exactly one solution (x3, y3) whenever dx # 0, so requiring it of a *)
(* given R is the same as computing the sum.                               *)
(***************************************************************************)
LOCAL SlopeRel(P, Q, R, dy, dx) ==
  LET dx2 == FSqr(dx)
  IN  /\ ~R.inf
      /\ FMul(R.x, dx2) = FSub(FSqr(dy), FMul(FAdd(P.x, Q.x), dx2))
      /\ FMul(FAdd(R.y, P.y), dx) = FMul(dy, FSub(P.x, R.x))

IsSum(P, Q, R) ==
  IF P.inf THEN R = Q
  ELSE IF Q.inf THEN R = P
  ELSE IF P.x # Q.x THEN SlopeRel(P, Q, R, FSub(Q.y, P.y), FSub(Q.x, P.x))
  ELSE IF P.y = Q.y /\ P.y # FZero
       THEN SlopeRel(P, Q, R, FAdd(FTpl(FSqr(P.x)), CA), FDbl(P.y))
  ELSE R = Inf

IsDouble(P, R) == IsSum(P, P, R)
IsDiff(P, Q, R) == IsSum(P, Neg(Q), R)

(***************************************************************************)
(* Jacobian coordinates (X : Y : Z) ~ (X/Z^2, Y/Z^3), Z = 0 for infinity.   *)
(***************************************************************************)
JInf == << FOne, FOne, FZero >>
JOfAffine(P) == IF P.inf THEN JInf ELSE << P.x, P.y, FOne >>
JIsInf(J) == J[3] = FZero

\* doubling, general A  (dbl-2007-bl shape, written out plainly)
JDbl(J) ==
  IF JIsInf(J) \/ J[2] = FZero THEN JInf
  ELSE LET X == J[1]  Y == J[2]  Z == J[3]
           YY == FSqr(Y)
           S  == FDbl(FDbl(FMul(X, YY)))                                  \* 4 X Y^2
           ZZ == FSqr(Z)
           M  == FAdd(FTpl(FSqr(X)), FMul(CA, FSqr(ZZ)))                  \* 3 X^2 + A Z^4
           X3 == FSub(FSqr(M), FDbl(S))
           Y3 == FSub(FMul(M, FSub(S, X3)), FDbl(FDbl(FDbl(FSqr(YY)))))   \* M (S - X3) - 8 Y^4
           Z3 == FDbl(FMul(Y, Z))
       IN  << X3, Y3, Z3 >>

\* mixed addition J + P, P affine
JAddAffine(J, P) ==
  IF P.inf THEN J
  ELSE IF JIsInf(J) THEN JOfAffine(P)
  ELSE LET X1 == J[1]  Y1 == J[2]  Z1 == J[3]
           ZZ == FSqr(Z1)
           U2 == FMul(P.x, ZZ)
           S2 == FMul(P.y, FMul(ZZ, Z1))
           H  == FSub(U2, X1)
           R  == FSub(S2, Y1)
       IN  IF H = FZero
           THEN (IF R = FZero THEN JDbl(J) ELSE JInf)
           ELSE LET HH == FSqr(H)
                    HHH == FMul(HH, H)
                    V  == FMul(X1, HH)
                    X3 == FSub(FSub(FSqr(R), HHH), FDbl(V))
                    Y3 == FSub(FMul(R, FSub(V, X3)), FMul(Y1, HHH))
                    Z3 == FMul(Z1, H)
                IN  << X3, Y3, Z3 >>

\* does the Jacobian triple J denote the affine point R ?  (no inversion)
JEqualsAffine(J, R) ==
  IF JIsInf(J) THEN R.inf
  ELSE /\ ~R.inf
       /\ LET ZZ == FSqr(J[3])
          IN  /\ J[1] = FMul(R.x, ZZ)
              /\ J[2] = FMul(R.y, FMul(ZZ, J[3]))

\* affine point of a Jacobian triple (uses FInv; toy scale only)
JToAffine(J) ==
  IF JIsInf(J) THEN Inf
  ELSE LET zi == FInv(J[3])  zi2 == FSqr(zi)
       IN  Pt(FMul(J[1], zi2), FMul(J[2], FMul(zi2, zi)))

(***************************************************************************)
(* One step of left-to-right double-and-add: acc |-> 2 acc (+ P if bit).   *)
(***************************************************************************)
LadderStep(acc, P, bit) ==
  LET d == JDbl(acc) IN IF bit = 1 THEN JAddAffine(d, P) ELSE d

\* [k]P for k given by its bits, most significant first.  FoldLeft, not recursion (see Secp256k1!PPow).
SMulBits(bits, P) == FoldLeft(LAMBDA acc, b : LadderStep(acc, P, b), JInf, bits)

\* the literal k-fold sum P + P + ... + P (k a native integer; toy scale) -- the oracle named by C01
RECURSIVE KFold(_, _)
KFold(k, P) == IF k = 0 THEN Inf ELSE AddAffine(KFold(k - 1, P), P)

(***************************************************************************)
(* Homogeneous projective coordinates (X : Y : Z) ~ (X/Z, Y/Z), the        *)
(* implementation's representation; identity = any (0 : Y : 0), Y # 0.     *)
(* HRepresents is the abstraction relation, inversion-free.                *)
(***************************************************************************)
HRepresents(H, P) ==
  IF H[3] = FZero THEN P.inf /\ H[1] = FZero /\ H[2] # FZero
  ELSE ~P.inf /\ H[1] = FMul(P.x, H[3]) /\ H[2] = FMul(P.y, H[3])
=============================================================================
