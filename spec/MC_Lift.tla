------------------------------- MODULE MC_Lift -------------------------------
(***************************************************************************)
(* The lift (DESIGN 2.5): straight-line functions of the REAL code, recorded *)
(* as three-address programs over field operations (module LiftProg,        *)
(* generated at check time from an instrumented build of the working tree), *)
(* interpreted over the toy field for EVERY pair of projective              *)
(* representations.  What is checked is therefore the operation sequence    *)
(* the Go code actually executes -- not a transcription of it -- against    *)
(* the group law, including every exceptional configuration (either or both *)
(* operands the identity with any Y, P = Q and P = -Q in different          *)
(* scalings, receiver = argument).                                          *)
(* A violation here is a LEAD: it becomes a verdict only when the real code *)
(* misbehaves on corresponding 256-bit operands (the C02 traces).           *)
(***************************************************************************)
EXTENDS Toy, LiftProg, SequencesExt, TLC

CONSTANT LamSample
VARIABLES u, v, ok
vars == << u, v, ok >>

RepsSample == UNION {IF P.inf THEN {<< 0, Y, 0 >> : Y \in LamSample}
                     ELSE {<< TMul(P.x, l), TMul(P.y, l), l >> : l \in LamSample} : P \in AllPoints}

\* constants are recorded by value; only small ones (b3 = 21, 0, 1, ...) have a toy counterpart
ConstOf(p, r) == LET c == CHOOSE c \in {p.consts[i] : i \in 1..Len(p.consts)} : c[1] = r IN c[2] % Q
IsConst(p, r) == \E i \in 1..Len(p.consts) : p.consts[i][1] = r

Exec(p, ins) ==
  LET init == [r \in 1..p.nregs |-> IF r <= p.nin THEN ins[r] ELSE IF IsConst(p, r) THEN ConstOf(p, r) ELSE 0]
      step(regs, i) ==
        [regs EXCEPT ![i[2]] = CASE i[1] = "mul" -> TMul(regs[i[3]], regs[i[4]])
                                 [] i[1] = "add" -> TAdd(regs[i[3]], regs[i[4]])
                                 [] i[1] = "sub" -> TSub(regs[i[3]], regs[i[4]])
                                 [] i[1] = "squ" -> TMul(regs[i[3]], regs[i[3]])
                                 [] i[1] = "neg" -> TNeg(regs[i[3]])
                                 [] i[1] = "set" -> regs[i[3]]
                                 [] i[1] = "one" -> 1]
      fin == FoldLeft(step, init, p.code)
  IN  << fin[p.out[1]], fin[p.out[2]], fin[p.out[3]] >>

Prog(name) == CHOOSE p \in {Progs[i] : i \in 1..Len(Progs)} : p.name = name
Has(name) == \E i \in 1..Len(Progs) : Progs[i].name = name /\ Progs[i].liftable

PairOK(a, b) ==
  LET P == HAbs(a)  Qp == HAbs(b)
  IN  /\ (Has("Add") => LET r == Exec(Prog("Add"), a \o b) IN ValidRep(r) /\ HAbs(r) = TC!AddAffine(P, Qp))
      /\ (Has("Subtract") => LET r == Exec(Prog("Subtract"), a \o b) IN ValidRep(r) /\ HAbs(r) = TC!AddAffine(P, TC!Neg(Qp)))
SingleOK(a) ==
  LET P == HAbs(a)
  IN  /\ (Has("AddAliased") => LET r == Exec(Prog("AddAliased"), a) IN ValidRep(r) /\ HAbs(r) = TC!AddAffine(P, P))
      /\ (Has("SubtractAliased") => HAbs(Exec(Prog("SubtractAliased"), a)) = TC!Inf)
      /\ (Has("Double") => LET r == Exec(Prog("Double"), a) IN ValidRep(r) /\ HAbs(r) = TC!AddAffine(P, P))

Init == u \in AllReps /\ v = << 0, 1, 0 >> /\ ok = SingleOK(u)
Next == /\ v = << 0, 1, 0 >> /\ ok
        /\ \E b \in RepsSample \ {<< 0, 1, 0 >>} : v' = b /\ u' = u /\ ok' = PairOK(u, b)
Spec == Init /\ [][Next]_vars
AllOK == ok
=============================================================================
