-------------------------------- MODULE H2C --------------------------------
(***************************************************************************)
(* RFC 9380 suites secp256k1_XMD:SHA-256_SSWU_RO_ / _NU_ (section 8.7) and  *)
(* hash_to_field over the group order (what HashToScalar is).               *)
(*                                                                         *)
(*   hash_to_field   computed (SHA-256 and a wide reduction, all in TLA+)   *)
(*   map_to_curve    Sswu!IsMapOf    -- relation with a unique solution     *)
(*   addition on E'  CI!IsSum        -- relation with a unique solution     *)
(*   iso_map         IsIsoMapOf      -- cross-multiplied rational map       *)
(* so a claimed chain  u0,u1 -> Q0',Q1' -> R' -> P  is accepted exactly     *)
(* when it is the RFC's; the intermediate points act as certificates and    *)
(* cannot make a wrong P acceptable.  The functional forms (HashToCurveF    *)
(* etc., several seconds each) are kept for cross-checking a subset.        *)
(***************************************************************************)
EXTENDS Secp256k1, Xmd

LVal == 48        \* L = ceil((ceil(log2 p) + k) / 8), k = 128

\* 5.2 hash_to_field, m = 1: count elements modulo M (a BigNat modulus record)
HashToFieldM(msg, dst, count, M) ==
  LET ub == ExpandMessageXmd(msg, dst, count * LVal)
  IN  [i \in 1..count |-> Mod(OS2IP(SubSeq(ub, LVal * (i - 1) + 1, LVal * i)), M)]

HashToFieldP(msg, dst, count) == HashToFieldM(msg, dst, count, PM)
HashToScalar(msg, dst) == HashToFieldM(msg, dst, 1, NM)[1]
\* the reduction step alone: 48 bytes -> residue
WideReduce(bs, M) == Mod(OS2IP(bs), M)

SW == INSTANCE Sswu WITH FAdd <- PAdd, FSub <- PSub, FMul <- PMul, FNeg <- PNeg,
                        FZero <- PZero, FOne <- POne, FInv <- PInv, FIsSquare <- PIsSquare,
                        FSqrt <- PSqrt, FSgn0 <- PSgn0, SA <- IsoA, SB <- IsoB, SZ <- SswuZ,
                        Pt <- CI!Pt

\* E.1: the 3-isogeny E' -> secp256k1
LOCAL Poly3(x, k3, k2, k1, k0) == PAdd(PMul(PAdd(PMul(PAdd(PMul(k3, x), k2), x), k1), x), k0)
IsoXNum(x) == Poly3(x, K13, K12, K11, K10)
IsoXDen(x) == Poly3(x, PZero, POne, K21, K20)
IsoYNum(x) == Poly3(x, K33, K32, K31, K30)
IsoYDen(x) == Poly3(x, POne, K42, K41, K40)

\* R is the image of the E' point Q (identity when Q is, or when a denominator vanishes)
IsIsoMapOf(Q, R) ==
  IF Q.inf THEN R.inf
  ELSE LET xd == IsoXDen(Q.x)  yd == IsoYDen(Q.x)
       IN  IF xd = PZero \/ yd = PZero THEN R.inf
           ELSE /\ ~R.inf
                /\ PMul(R.x, xd) = IsoXNum(Q.x)
                /\ PMul(R.y, yd) = PMul(Q.y, IsoYNum(Q.x))

IsoMapF(Q) ==
  IF Q.inf THEN C!Inf
  ELSE LET xd == IsoXDen(Q.x)  yd == IsoYDen(Q.x)
       IN  IF xd = PZero \/ yd = PZero THEN C!Inf
           ELSE C!Pt(PMul(IsoXNum(Q.x), PInv(xd)), PMul(PMul(Q.y, IsoYNum(Q.x)), PInv(yd)))

\* ---- relational statements of the two suites.  q0, q1, r are claimed points of E'.
IsHashToCurve(msg, dst, q0, q1, r, P) ==
  LET u == HashToFieldP(msg, dst, 2)
  IN  /\ SW!IsMapOf(u[1], q0)
      /\ SW!IsMapOf(u[2], q1)
      /\ CI!IsSum(q0, q1, r)
      /\ IsIsoMapOf(r, P)

IsEncodeToCurve(msg, dst, q0, P) ==
  LET u == HashToFieldP(msg, dst, 1)
  IN  SW!IsMapOf(u[1], q0) /\ IsIsoMapOf(q0, P)

\* ---- functional forms (slow: several field exponentiations each)
\* Note RFC 9380 section 3: hash_to_curve adds Q0 and Q1 on the TARGET curve after iso_map; the map
\* is a group homomorphism, so adding on E' first (as above, and as many implementations do) gives
\* the same point.  The functional form below follows the RFC text literally, which makes the
\* comparison of the two forms a check of that equivalence as well.
HashToCurveF(msg, dst) ==
  LET u == HashToFieldP(msg, dst, 2)
  IN  C!AddAffine(IsoMapF(SW!MapToCurve(u[1])), IsoMapF(SW!MapToCurve(u[2])))
EncodeToCurveF(msg, dst) == IsoMapF(SW!MapToCurve(HashToFieldP(msg, dst, 1)[1]))
=============================================================================
