--------------------------------- MODULE Mont ---------------------------------
(***************************************************************************)
(* Word-level Montgomery arithmetic as the Fiat-Crypto generated code of    *)
(* internal/field and internal/scalar performs it, at a generic width:      *)
(* K limbs of WBits bits, odd modulus M < 2^(K*WBits), R = 2^(K*WBits).     *)
(*                                                                         *)
(*   Mul      for each limb a[i]:  acc += a[i] * b;  q = acc[0] * M' mod W; *)
(*            acc = (acc + q * M) / W;   then ONE conditional subtraction   *)
(*   Square   Mul(a, a)                                                     *)
(*   Add/Sub  limb-wise with carry / borrow and a conditional subtraction / *)
(*            addition of M                                                 *)
(*   Opp      M - a, with 0 |-> 0                                           *)
(*   To / From Montgomery form: Mul(a, R^2 mod M), Mul(a, 1)                *)
(* MC_Mont checks, for EVERY pair of residues of a toy modulus, that these  *)
(* compute a*b*R^-1, a+-b, -a mod M, that every result is canonical (< M),  *)
(* and that To/From are inverse.  Deviations (Dev): "carry-always-one" (the *)
(* low limb of acc + q*M is assumed to carry -- wrong when acc[0] = 0, the  *)
(* seeded change C06_r2m1), "add-no-final-sub" (only the carry out of the   *)
(* addition triggers the subtraction -- C06_m2), "opp-zero-is-m" (C12_r2m2),*)
(* "mul-final-sub-on-overflow-only" (the product is reduced only when it    *)
(* overflowed R: values in [M, R) stay -- C05_r5m1, C11_r5m1, C12_r4m1).    *)
(***************************************************************************)
EXTENDS Integers, Sequences, SequencesExt

CONSTANTS WBits, K, M, Dev

RECURSIVE P2(_)
P2(i) == IF i = 0 THEN 1 ELSE 2 * P2(i - 1)
Wd == P2(WBits)
R == P2(WBits * K)

\* M' = -M^-1 mod W
MPrime == CHOOSE x \in 0..(Wd - 1) : (x * M + 1) % Wd = 0

\* one outer iteration of the multiplication on the integer accumulator (acc < 2 M W is preserved)
MulStep(acc, ai, b) ==
  LET t == acc + ai * b
      q == ((t % Wd) * MPrime) % Wd
      low == (t % Wd) + ((q * M) % Wd)                     \* 0 or W: the low limbs cancel
      carry == IF Dev = "carry-always-one" THEN 1 ELSE low \div Wd
  IN  (t \div Wd) + ((q * M) \div Wd) + carry

CondSub(x) == IF x >= M THEN x - M ELSE x

Mul(a, b) ==
  LET limbs == [i \in 1..K |-> (a \div P2(WBits * (i - 1))) % Wd]
      t == FoldLeft(LAMBDA acc, ai : MulStep(acc, ai, b), 0, limbs)
  IN  IF Dev = "mul-final-sub-on-overflow-only" THEN (IF t >= R THEN t - M ELSE t) ELSE CondSub(t)
Square(a) == Mul(a, a)

Add(a, b) ==
  LET s == a + b
  IN  IF Dev = "add-no-final-sub" THEN (IF s >= R THEN s - M ELSE s) ELSE CondSub(s)
Sub(a, b) == IF a >= b THEN a - b ELSE a - b + M
Opp(a) == IF Dev = "opp-zero-is-m" THEN M - a ELSE (IF a = 0 THEN 0 ELSE M - a)

R2 == (R * R) % M
ToMont(a) == Mul(a, R2)
FromMont(a) == Mul(a, 1)
=============================================================================
