------------------------------ MODULE MemAppend ------------------------------
(***************************************************************************)
(* C15 at toy scale, exhaustively over EVERY slice layout: how a callee may *)
(* assemble the byte strings it hashes from the caller's message and DST.   *)
(*                                                                         *)
(* The caller's memory is one array of NCells cells.  msg and dst are Go    *)
(* slices into it: (off, len, cap) with off + cap <= NCells; their CONTENTS *)
(* [off, off+len) do not overlap, but a slice's spare capacity may run over *)
(* the other slice (two windows of one received record, in either order),   *)
(* over unrelated caller data, or be absent (len = cap).  TLC enumerates    *)
(* all such layouts.                                                        *)
(*                                                                         *)
(* The callee computes  H1 = msg || TAG  and  H2 = dst || len(dst)  (the    *)
(* shapes of expand_message_xmd's  msg || l_i_b || 0  and  DST_prime) by    *)
(* one of these strategies (constant Strategy):                             *)
(*   "fresh"          copy into buffers of its own (the repaired code)      *)
(*   "append-to-dst"  append(dst, len) -- in place when len < cap           *)
(*   "append-to-msg"  append(msg, TAG) -- in place when len < cap           *)
(*   "digest-into-dst" write a digest over dst[0:...] (h.Sum(dst[:0]))      *)
(* Go's append: in place iff len < cap, else a fresh copy.                  *)
(*                                                                         *)
(* Properties: CallerMemoryUnchanged (no cell of the caller's array is      *)
(* written) and Correct (both strings equal what the ORIGINAL contents      *)
(* prescribe).  Only "fresh" satisfies them on every layout; for each other *)
(* strategy TLC exhibits the layouts on which it fails -- the seeded        *)
(* changes C08_m2, C09_r2m1, C15_m2, C15_r2m1 and the pinned tree's defect  *)
(* are instances.                                                           *)
(***************************************************************************)
EXTENDS Integers, Sequences, TLC

CONSTANTS NCells, Strategy
TAG == 77
Sentinel == 9

VARIABLES layout, mem, h1, h2, pc
vars == << layout, mem, h1, h2, pc >>

\* a layout: [mo, ml, mc, do, dl, dc]
Layouts ==
  {l \in [mo : 0..(NCells - 1), ml : 1..2, mc : 1..NCells, do : 0..(NCells - 1), dl : 1..2, dc : 1..NCells] :
     /\ l.ml <= l.mc /\ l.dl <= l.dc
     /\ l.mo + l.mc <= NCells /\ l.do + l.dc <= NCells
     /\ (l.mo + l.ml <= l.do \/ l.do + l.dl <= l.mo)}            \* the contents do not overlap

InitMem(l) == [c \in 1..NCells |->
                 IF c > l.mo /\ c <= l.mo + l.ml THEN 10 + (c - l.mo)        \* message bytes 11, 12
                 ELSE IF c > l.do /\ c <= l.do + l.dl THEN 20 + (c - l.do)   \* DST bytes 21, 22
                 ELSE Sentinel]

Slice(m, off, len) == [i \in 1..len |-> m[off + i]]
ExpectedH1(l) == Slice(InitMem(l), l.mo, l.ml) \o << TAG >>
ExpectedH2(l) == Slice(InitMem(l), l.do, l.dl) \o << l.dl >>

Init == layout \in Layouts /\ mem = InitMem(layout) /\ h1 = << >> /\ h2 = << >> /\ pc = "start"

\* Go: append(s, b) for the slice (off, len, cap) of mem
AppendInPlace(off, len, b) == [mem EXCEPT ![off + len + 1] = b]

\* step 1: build DST_prime (the code does this first), step 2: build msg || TAG, reading memory AS IT IS THEN
BuildDst ==
  /\ pc = "start"
  /\ LET l == layout IN
     CASE Strategy = "append-to-dst" /\ l.dl < l.dc ->
            /\ mem' = AppendInPlace(l.do, l.dl, l.dl)
            /\ h2' = Slice(mem', l.do, l.dl + 1)
       [] Strategy = "digest-into-dst" ->
            \* a "digest" (here: the constant 55) is written over the first cell of dst, then the suffix is appended freshly
            /\ mem' = [mem EXCEPT ![l.do + 1] = 55]
            /\ h2' = Slice(mem, l.do, l.dl) \o << l.dl >>
       [] OTHER ->
            /\ mem' = mem
            /\ h2' = Slice(mem, l.do, l.dl) \o << l.dl >>
  /\ pc' = "dst-done" /\ UNCHANGED << layout, h1 >>

BuildMsg ==
  /\ pc = "dst-done"
  /\ LET l == layout IN
     IF Strategy = "append-to-msg" /\ l.ml < l.mc
     THEN /\ mem' = AppendInPlace(l.mo, l.ml, TAG)
          /\ h1' = Slice(mem', l.mo, l.ml + 1)
     ELSE /\ mem' = mem
          /\ h1' = Slice(mem, l.mo, l.ml) \o << TAG >>
  /\ pc' = "done" /\ UNCHANGED << layout, h2 >>

\* the hashes are computed at the end from what the callee holds; with in-place strategies h2 may have been
\* invalidated by the later write into the message's spare capacity: re-read it
Finish ==
  /\ pc = "done"
  /\ LET l == layout IN
     h2' = IF Strategy = "append-to-dst" /\ l.dl < l.dc THEN Slice(mem, l.do, l.dl + 1) ELSE h2
  /\ pc' = "hashed" /\ UNCHANGED << layout, mem, h1 >>

Next == BuildDst \/ BuildMsg \/ Finish
Spec == Init /\ [][Next]_vars

CallerMemoryUnchanged == mem = InitMem(layout)
Correct == pc = "hashed" => h1 = ExpectedH1(layout) /\ h2 = ExpectedH2(layout)
=============================================================================
