----------------------------- MODULE MC_History -----------------------------
(***************************************************************************)
(* C10 at toy scale: the implementation-shaped operations (SecpImpl, on      *)
(* projective triples) REFINE the abstract machine SecpAbs under the        *)
(* abstraction  (X : Y : Z) |-> (X/Z, Y/Z)  or the identity.                *)
(*                                                                         *)
(* State: a pool of NEl projective triples and NSc scalars.  Every public   *)
(* operation with every choice of receiver and argument -- including the    *)
(* same variable -- is a transition; representations are whatever the       *)
(* operations themselves leave behind (no artificial rescaling), so an      *)
(* identity like (0 : 25 : 0) produced by one call is fed to all others.    *)
(* TLC explores all histories up to MaxCalls calls and checks on every      *)
(* step that the corresponding SecpAbs action holds between the abstract    *)
(* images of the two states (StepRefines), which includes the frame         *)
(* conditions: no variable other than the receiver changes; a copy is       *)
(* independent of its source.  Invariant: every triple is a valid           *)
(* representation of a curve point.                                         *)
(***************************************************************************)
EXTENDS ToyCodec, TLC

CONSTANTS NEl, NSc, MaxCalls, ScalarConsts, BaseX, BaseY, DecodeInputs

VARIABLES H, K,          \* implementation state: projective triples, scalars mod NOrd
          last,          \* the call just made: << name, receiver, argument >>
          calls
vars == << H, K, last, calls >>

EI == 1..NEl
SI == 1..NSc

\* ---- abstraction
Ebar == [v \in EI |-> HAbs(H[v])]

NoOp1(x) == x
NoOp2(x, y) == x
Rej2(x, y) == [res |-> "reject", p |-> TC!Inf]
Rej1(x) == [res |-> "reject", p |-> TC!Inf]
False4(a, b, c, d) == FALSE
IsMulT(k, P, R) == R = TC!KFold(k, P)
RAddT(a, b) == (a + b) % NOrd
RSubT(a, b) == (a - b + NOrd) % NOrd
RMulT(a, b) == (a * b) % NOrd
RInvT(s, r) == IF s = 0 THEN r = 0 ELSE (s * r) % NOrd = 1
RLeT(a, b) == IF a <= b THEN 1 ELSE 0
DecNone(x) == [err |-> 1, v |-> 0]
OutNone(x) == [panic |-> TRUE, v |-> 0, used |-> 0]

Abs == INSTANCE SecpAbs WITH
  NE <- NEl, NS <- NSc, E <- Ebar, S <- K,
  Inf <- TC!Inf, BaseG <- TC!Pt(BaseX, BaseY), Neg <- TC!Neg, IsSum <- TC!IsSum, IsMul <- IsMulT,
  PEncode <- Sec!Encode, PEncodeUnc <- Sec!EncodeUncompressed, PXCoord <- Sec!XCoordinate, PHex <- NoOp1,
  PDecode <- Sec!Decode, PDecodeCompressed <- Sec!DecodeCompressed, PDecodeUncompressed <- Sec!DecodeUncompressed,
  PDecodeCoords <- Sec!DecodeCoordinates, PDecodeHex <- Rej2,
  RZero <- 0, ROne <- 1, RMinusOne <- NOrd - 1, RAdd <- RAddT, RSub <- RSubT, RMul <- RMulT,
  RIsInverse <- RInvT, RPow <- NoOp2, RLessOrEqual <- RLeT, RBits <- NoOp1,
  REncode <- NoOp1, RHex <- NoOp1, RDecode <- DecNone, RDecodeHex <- DecNone, ROfU64 <- NoOp1,
  IsHashToGroup <- False4, IsEncodeToGroup <- False4, HashToScalarOf <- NoOp2, RandomOutcome <- OutNone

\* byte strings fed to the decoders besides round trips: identity, wrong prefixes, x >= q, off-curve x, bad lengths
DecodeInputsDef == << << 0 >>, << 1 >>, << 2, 2 >>, << 3, 2 >>, << 2, 45 >>, << 2, 1 >>, << 5, 2 >>, << 4, 2, 12 >>, << 4, 2, 13 >>,
                      << 4, 45, 12 >>, << 4, 2, 55 >>, << >>, << 2, 2, 12, 1 >> >>

RECURSIVE P2(_)
P2(i) == IF i = 0 THEN 1 ELSE 2 * P2(i - 1)
LBits == 6
BitsOf(n) == [i \in 1..LBits |-> (n \div P2(i - 1)) % 2]

Init == /\ H = [v \in EI |-> << 0, 1, 0 >>]
        /\ K = [v \in SI |-> 0]
        /\ last = << "init", 0, 0 >> /\ calls = 0

Call(name, r, a, H2, K2) == /\ calls < MaxCalls /\ calls' = calls + 1
                            /\ H' = H2 /\ K' = K2 /\ last' = << name, r, a >>

Next ==
  \/ \E r \in EI : Call("EIdentity", r, 0, [H EXCEPT ![r] = << 0, 1, 0 >>], K)
  \/ \E r \in EI : Call("EBase", r, 0, [H EXCEPT ![r] = << BaseX, BaseY, 1 >>], K)
  \/ \E r, a \in EI : Call("ESet", r, a, [H EXCEPT ![r] = H[a]], K)
  \/ \E r, a \in EI : Call("EAdd", r, a, [H EXCEPT ![r] = Impl!RCBAdd(H[r], H[a])], K)
  \/ \E r, a \in EI : Call("ESub", r, a, [H EXCEPT ![r] = Impl!SubImpl(H[r], H[a])], K)
  \/ \E r \in EI : Call("EDouble", r, 0, [H EXCEPT ![r] = Impl!RCBDbl(H[r])], K)
  \/ \E r \in EI : Call("ENegate", r, 0, [H EXCEPT ![r] = Impl!NegImpl(H[r])], K)
  \/ \E r \in EI, s \in SI : Call("EMul", r, s, [H EXCEPT ![r] = Impl!LadderImpl(H[r], BitsOf(K[s]), K[s] = 1)], K)
  \/ \E r, a \in EI : Call("ECopy", r, a, [H EXCEPT ![r] = H[a]], K)
  \/ \E r \in EI : Call("EAddNil", r, 0, H, K)
  \/ \E r \in EI : Call("ESubNil", r, 0, H, K)
  \/ \E r \in EI : Call("EMulNil", r, 0, [H EXCEPT ![r] = << 0, 1, 0 >>], K)
  \* decoding: the encoding of another variable (round trip), or one of the fixed byte strings (mostly invalid)
  \/ \E r, a \in EI : LET bs == EncodeImpl(H[a])  d == ImplDecode(bs)
                       IN  Call("EDecodeEnc", r, a, [H EXCEPT ![r] = IF d.res = "accept" THEN RepOfDecoded(d) ELSE H[r]], K)
  \/ \E r, a \in EI : LET bs == EncodeUncImpl(H[a])  d == ImplDecode(bs)
                       IN  Call("EDecodeUnc", r, a, [H EXCEPT ![r] = IF d.res = "accept" THEN RepOfDecoded(d) ELSE H[r]], K)
  \/ \E r \in EI, i \in 1..Len(DecodeInputs) :
        LET d == ImplDecode(DecodeInputs[i])
        IN  Call("EDecodeFixed", r, i, [H EXCEPT ![r] = IF d.res = "accept" THEN RepOfDecoded(d) ELSE H[r]], K)
  \/ \E r \in SI, c \in ScalarConsts : Call("SSetC", r, c, H, [K EXCEPT ![r] = c])
  \/ \E r, a \in SI : Call("SSub", r, a, H, [K EXCEPT ![r] = (K[r] - K[a] + NOrd) % NOrd])
  \/ \E r \in SI : Call("SSquare", r, 0, H, [K EXCEPT ![r] = (K[r] * K[r]) % NOrd])
  \/ \E r \in SI : Call("SInvert", r, 0, H, [K EXCEPT ![r] = IF K[r] = 0 THEN 0 ELSE CHOOSE x \in 1..(NOrd - 1) : (x * K[r]) % NOrd = 1])
  \/ \E r, a \in SI : Call("SSet", r, a, H, [K EXCEPT ![r] = K[a]])
  \/ \E r, a \in SI, c \in {0, 1, 2} : Call("SCSelect", r, << c, a >>, H, [K EXCEPT ![r] = IF c = 0 THEN K[r] ELSE K[a]])
  \/ \E r, a \in SI : Call("SAdd", r, a, H, [K EXCEPT ![r] = (K[r] + K[a]) % NOrd])
  \/ \E r, a \in SI : Call("SMul", r, a, H, [K EXCEPT ![r] = (K[r] * K[a]) % NOrd])

Spec == Init /\ [][Next]_vars

\* the abstract action each call stands for, evaluated on the abstract images of the two states
StepRefines ==
  LET n == last'[1]  r == last'[2]  a == last'[3]
  IN  CASE n = "EIdentity" -> Abs!EIdentity(r)
        [] n = "EBase"     -> Abs!EBase(r)
        [] n = "ESet"      -> Abs!ESet(r, a)
        [] n = "EAdd"      -> Abs!EAdd(r, a)
        [] n = "ESub"      -> Abs!ESubtract(r, a)
        [] n = "EDouble"   -> Abs!EDouble(r)
        [] n = "ENegate"   -> Abs!ENegate(r)
        [] n = "EMul"      -> Abs!EMultiply(r, a)
        [] n = "ECopy"     -> Abs!ECopy(r, a)
        [] n = "EAddNil"   -> Abs!EAddNil(r)
        [] n = "ESubNil"   -> Abs!ESubtractNil(r)
        [] n = "EMulNil"   -> Abs!EMultiplyNil(r)
        \* the abstract decoder is given the witness the relation needs (TLC finds it); the error flag is what
        \* the implementation-shaped decoder reported
        [] n = "EDecodeEnc" -> \E w \in Fq : Abs!EDecode(r, Sec!Encode(Ebar[a]), w, IF ImplDecode(EncodeImpl(H[a])).res = "accept" THEN 0 ELSE 1)
        [] n = "EDecodeUnc" -> \E w \in Fq : Abs!EDecode(r, Sec!EncodeUncompressed(Ebar[a]), w, IF ImplDecode(EncodeUncImpl(H[a])).res = "accept" THEN 0 ELSE 1)
        [] n = "EDecodeFixed" -> \E w \in Fq : Abs!EDecode(r, DecodeInputs[a], w, IF ImplDecode(DecodeInputs[a]).res = "accept" THEN 0 ELSE 1)
        [] n = "SSetC"     -> K'[r] = a /\ Abs!OnlyS(r)
        [] n = "SSub"      -> Abs!SSubtract(r, a)
        [] n = "SSquare"   -> Abs!SSquare(r)
        [] n = "SInvert"   -> Abs!SInvert(r)
        [] n = "SSet"      -> Abs!SSet(r, a)
        [] n = "SCSelect"  -> Abs!SCSelect(r, a[1] = 0, r, a[2], 0)
        [] n = "SAdd"      -> Abs!SAdd(r, a)
        [] n = "SMul"      -> Abs!SMultiply(r, a)
Refinement == [][StepRefines]_vars

AllValid == \A v \in EI : ValidRep(H[v])
\* what Equal / IsIdentity / Encode would report agrees with the abstract state
ObserversAgree == \A v, w \in EI : /\ Impl!EqualImpl(H[v], H[w]) = (IF Ebar[v] = Ebar[w] THEN 1 ELSE 0)
                                   /\ Impl!IsIdentityImpl(H[v]) = Ebar[v].inf
                                   /\ EncodeImpl(H[v]) = Sec!Encode(Ebar[v])
                                   /\ EncodeUncImpl(H[v]) = Sec!EncodeUncompressed(Ebar[v])
StateView == << H, K, calls >>
=============================================================================
