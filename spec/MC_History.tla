----------------------------- MODULE MC_History -----------------------------
(***************************************************************************)
(* C10 at toy scale: the implementation-shaped operations (SecpImpl, on      *)
(* projective triples) REFINE the abstract machine SecpAbs under the        *)
(* abstraction  (X : Y : Z) |-> (X/Z, Y/Z)  or the identity.                *)
(*                                                                         *)
(* State: a pool of NEl projective triples and NSc scalars.  Every public   *)
(* operation with every choice of receiver and argument -- including the    *)
(* same variable -- is a transition; representations are whatever the       *)
(* operations themselves leave behind (no artificial rescaling), so an      *)
(* identity like (0 : 25 : 0) produced by one call is fed to all others.    *)
(* TLC explores all histories up to MaxCalls calls and checks on every      *)
(* step that the corresponding SecpAbs action holds between the abstract    *)
(* images of the two states (StepRefines), which includes the frame         *)
(* conditions: no variable other than the receiver changes; a copy is       *)
(* independent of its source.  Invariant: every triple is a valid           *)
(* representation of a curve point.                                         *)
(***************************************************************************)
EXTENDS Toy, TLC

CONSTANTS NEl, NSc, MaxCalls, ScalarConsts, BaseX, BaseY

VARIABLES H, K,          \* implementation state: projective triples, scalars mod NOrd
          last,          \* the call just made: << name, receiver, argument >>
          calls
vars == << H, K, last, calls >>

EI == 1..NEl
SI == 1..NSc

\* ---- abstraction
Ebar == [v \in EI |-> HAbs(H[v])]

NoOp1(x) == x
NoOp2(x, y) == x
Rej2(x, y) == [res |-> "reject", p |-> TC!Inf]
Rej1(x) == [res |-> "reject", p |-> TC!Inf]
False4(a, b, c, d) == FALSE
IsMulT(k, P, R) == R = TC!KFold(k, P)
RAddT(a, b) == (a + b) % NOrd
RSubT(a, b) == (a - b + NOrd) % NOrd
RMulT(a, b) == (a * b) % NOrd
RInvT(s, r) == IF s = 0 THEN r = 0 ELSE (s * r) % NOrd = 1
RLeT(a, b) == IF a <= b THEN 1 ELSE 0
DecNone(x) == [err |-> 1, v |-> 0]
OutNone(x) == [panic |-> TRUE, v |-> 0, used |-> 0]

Abs == INSTANCE SecpAbs WITH
  NE <- NEl, NS <- NSc, E <- Ebar, S <- K,
  Inf <- TC!Inf, BaseG <- TC!Pt(BaseX, BaseY), Neg <- TC!Neg, IsSum <- TC!IsSum, IsMul <- IsMulT,
  PEncode <- NoOp1, PEncodeUnc <- NoOp1, PXCoord <- NoOp1, PHex <- NoOp1,
  PDecode <- Rej2, PDecodeCompressed <- Rej2, PDecodeUncompressed <- Rej1, PDecodeCoords <- Rej2, PDecodeHex <- Rej2,
  RZero <- 0, ROne <- 1, RMinusOne <- NOrd - 1, RAdd <- RAddT, RSub <- RSubT, RMul <- RMulT,
  RIsInverse <- RInvT, RPow <- NoOp2, RLessOrEqual <- RLeT, RBits <- NoOp1,
  REncode <- NoOp1, RHex <- NoOp1, RDecode <- DecNone, RDecodeHex <- DecNone, ROfU64 <- NoOp1,
  IsHashToGroup <- False4, IsEncodeToGroup <- False4, HashToScalarOf <- NoOp2, RandomOutcome <- OutNone

RECURSIVE P2(_)
P2(i) == IF i = 0 THEN 1 ELSE 2 * P2(i - 1)
LBits == 6
BitsOf(n) == [i \in 1..LBits |-> (n \div P2(i - 1)) % 2]

Init == /\ H = [v \in EI |-> << 0, 1, 0 >>]
        /\ K = [v \in SI |-> 0]
        /\ last = << "init", 0, 0 >> /\ calls = 0

Call(name, r, a, H2, K2) == /\ calls < MaxCalls /\ calls' = calls + 1
                            /\ H' = H2 /\ K' = K2 /\ last' = << name, r, a >>

Next ==
  \/ \E r \in EI : Call("EIdentity", r, 0, [H EXCEPT ![r] = << 0, 1, 0 >>], K)
  \/ \E r \in EI : Call("EBase", r, 0, [H EXCEPT ![r] = << BaseX, BaseY, 1 >>], K)
  \/ \E r, a \in EI : Call("ESet", r, a, [H EXCEPT ![r] = H[a]], K)
  \/ \E r, a \in EI : Call("EAdd", r, a, [H EXCEPT ![r] = Impl!RCBAdd(H[r], H[a])], K)
  \/ \E r, a \in EI : Call("ESub", r, a, [H EXCEPT ![r] = Impl!SubImpl(H[r], H[a])], K)
  \/ \E r \in EI : Call("EDouble", r, 0, [H EXCEPT ![r] = Impl!RCBDbl(H[r])], K)
  \/ \E r \in EI : Call("ENegate", r, 0, [H EXCEPT ![r] = Impl!NegImpl(H[r])], K)
  \/ \E r \in EI, s \in SI : Call("EMul", r, s, [H EXCEPT ![r] = Impl!LadderImpl(H[r], BitsOf(K[s]), K[s] = 1)], K)
  \/ \E r \in SI, c \in ScalarConsts : Call("SSetC", r, c, H, [K EXCEPT ![r] = c])
  \/ \E r, a \in SI : Call("SAdd", r, a, H, [K EXCEPT ![r] = (K[r] + K[a]) % NOrd])
  \/ \E r, a \in SI : Call("SMul", r, a, H, [K EXCEPT ![r] = (K[r] * K[a]) % NOrd])

Spec == Init /\ [][Next]_vars

\* the abstract action each call stands for, evaluated on the abstract images of the two states
StepRefines ==
  LET n == last'[1]  r == last'[2]  a == last'[3]
  IN  CASE n = "EIdentity" -> Abs!EIdentity(r)
        [] n = "EBase"     -> Abs!EBase(r)
        [] n = "ESet"      -> Abs!ESet(r, a)
        [] n = "EAdd"      -> Abs!EAdd(r, a)
        [] n = "ESub"      -> Abs!ESubtract(r, a)
        [] n = "EDouble"   -> Abs!EDouble(r)
        [] n = "ENegate"   -> Abs!ENegate(r)
        [] n = "EMul"      -> Abs!EMultiply(r, a)
        [] n = "SSetC"     -> K'[r] = a /\ Abs!OnlyS(r)
        [] n = "SAdd"      -> Abs!SAdd(r, a)
        [] n = "SMul"      -> Abs!SMultiply(r, a)
Refinement == [][StepRefines]_vars

AllValid == \A v \in EI : ValidRep(H[v])
\* what Equal / IsIdentity / Encode would report agrees with the abstract state
ObserversAgree == \A v, w \in EI : /\ Impl!EqualImpl(H[v], H[w]) = (IF Ebar[v] = Ebar[w] THEN 1 ELSE 0)
                                   /\ Impl!IsIdentityImpl(H[v]) = Ebar[v].inf
StateView == << H, K, calls >>
=============================================================================
