SPECIFICATION TraceSpec
INVARIANT Finished
INVARIANT CanonicalInv
POSTCONDITION TraceAccepted
CHECK_DEADLOCK FALSE
