SPECIFICATION TraceSpec
INVARIANT Finished
POSTCONDITION TraceAccepted
CHECK_DEADLOCK FALSE
