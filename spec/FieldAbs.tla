------------------------------ MODULE FieldAbs ------------------------------
(***************************************************************************)
(* The base-field layer (property C12) and the exported map-to-curve        *)
(* functions (C11) as a state machine over a pool of field registers        *)
(* F[1..NF], each an element of F_p in canonical form.  One action per      *)
(* method of internal/field.Element; destination and sources are register   *)
(* ids, so aliasing (z.Multiply(z, z), z.Invert(z) ...) is a parameter      *)
(* choice.  Frame: no register other than the destination changes.          *)
(* Inverses and square roots are specified by their defining relations.     *)
(***************************************************************************)
EXTENDS H2C

CONSTANT NF
VARIABLE F

FIds == 1..NF
FFrame(d) == \A v \in FIds : v # d => F'[v] = F[v]
FSame == F' = F

FInit == F = [v \in FIds |-> PZero]

FNew(d)       == F'[d] = PZero /\ FFrame(d)
FOne(d)       == F'[d] = POne /\ FFrame(d)
FSet(d, a)    == F'[d] = F[a] /\ FFrame(d)
FAdd(d, a, b) == F'[d] = PAdd(F[a], F[b]) /\ FFrame(d)
FSub(d, a, b) == F'[d] = PSub(F[a], F[b]) /\ FFrame(d)
FMul(d, a, b) == F'[d] = PMul(F[a], F[b]) /\ FFrame(d)
FSqr(d, a)    == F'[d] = PSqr(F[a]) /\ FFrame(d)
FNeg(d, a)    == F'[d] = PNeg(F[a]) /\ FFrame(d)
\* Invert: 0 |-> 0, otherwise a * a^-1 = 1
FInvert(d, a) == (IF F[a] = PZero THEN F'[d] = PZero ELSE PMul(F[a], F'[d]) = POne) /\ FFrame(d)
\* SqrtRatio(u, v), v # 0: flag 1 and y^2 v = u, or flag 0 and y^2 v = Z u with u/v a non-square.
\* Either root is allowed.  (Z = -11, the SSWU constant, as in RFC 9380 F.2.1.)
FSqrtRatio(d, a, b, flag) ==
  /\ F[b] # PZero
  /\ LET y2v == PMul(PSqr(F'[d]), F[b])
     IN  \/ flag = 1 /\ y2v = F[a]
         \/ flag = 0 /\ F[a] # PZero /\ y2v = PMul(SswuZ, F[a])
  /\ FFrame(d)
\* CMove(c, u, v): u for c = 0, v for c = 1
FCMove(d, c, a, b) == c \in {0, 1} /\ F'[d] = (IF c = 0 THEN F[a] ELSE F[b]) /\ FFrame(d)
\* parser: the flag reports exactly whether the 32 bytes were < p; the stored value is the integer mod p
FFromBytes(d, bs, flag) ==
  /\ flag = (IF Lt(OS2IP(bs), P_m) THEN 1 ELSE 0)
  /\ F'[d] = Mod(OS2IP(bs), PM)
  /\ FFrame(d)
\* 48-byte wide reduction
FWide(d, bs) == F'[d] = Mod(OS2IP(bs), PM) /\ FFrame(d)

\* observers
FBytes(a, ret)     == ret = I2OSP(F[a], 32) /\ FSame
FSgn0(a, ret)      == ret = PSgn0(F[a]) /\ FSame
FIsZero(a, ret)    == ret = (IF F[a] = PZero THEN 1 ELSE 0) /\ FSame
FEquals(a, b, ret) == ret = (IF F[a] = F[b] THEN 1 ELSE 0) /\ FSame

\* C11: the exported map functions.  Q is the returned point of E' (affine, as read from the result).
\* Secp256Polynomial(y, x): the right-hand side of the curve equation, y <- x^3 + 7 (distinct registers)
MPoly(d, a)   == d # a /\ F'[d] = PAdd(PMul(PSqr(F[a]), F[a]), CurveB) /\ FFrame(d)
MSswu(a, Q)   == SW!IsMapOf(F[a], Q) /\ FSame
MIso(Q, R)    == IsIsoMapOf(Q, R) /\ C!OnCurve(R) /\ FSame

\* C09 (ii): the scalar field's 48-byte wide reduction on chosen inputs (ret: the 32-byte encoding)
NWide(bs, ret) == ret = I2OSP(Mod(OS2IP(bs), NM), 32) /\ FSame

Canonical == \A v \in FIds : InFp(F[v])
=============================================================================
