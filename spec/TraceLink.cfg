SPECIFICATION TraceSpec
CONSTANTS
  Universe <- UniverseDef
  Registers <- RegistersDef
  Late <- LateDef
  Platforms <- PlatformsDef
  LibClosure <- LibClosureObserved
  Needs <- NeedsDef
INVARIANT Finished
POSTCONDITION TraceAccepted
CHECK_DEADLOCK FALSE
