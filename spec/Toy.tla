--------------------------------- MODULE Toy ---------------------------------
(***************************************************************************)
(* The toy instantiation: native integers modulo a small prime Q = 3 mod 4, *)
(* Q = 1 mod 3 (like the secp256k1 field), curve y^2 = x^3 + 7 of PRIME     *)
(* order NOrd -- found by search: (Q, NOrd) = (43, 31), (67, 79), (79, 67), *)
(* (127, 127), (163, 139).  Everything the real-scale validator evaluates   *)
(* over BigNat is evaluated here over every element of the field.           *)
(***************************************************************************)
EXTENDS Integers, Sequences, FiniteSets

CONSTANTS Q, NOrd, Dev

Fq == 0..(Q - 1)
TAdd(a, b) == (a + b) % Q
TSub(a, b) == (a - b + Q) % Q
TMul(a, b) == (a * b) % Q
TNeg(a) == (Q - a) % Q
TInv(a) == IF a = 0 THEN 0 ELSE CHOOSE b \in 1..(Q - 1) : (a * b) % Q = 1
TSgn0(a) == a % 2
TIsSquare(a) == \E r \in Fq : (r * r) % Q = a
TSqrt(a) == CHOOSE r \in Fq : (r * r) % Q = a

TC == INSTANCE Curve WITH FAdd <- TAdd, FSub <- TSub, FMul <- TMul, FNeg <- TNeg, FInv <- TInv,
                          FZero <- 0, FOne <- 1, CA <- 0, CB <- 7 % Q

Impl == INSTANCE SecpImpl WITH FAdd <- TAdd, FSub <- TSub, FMul <- TMul, FNeg <- TNeg, FInv <- TInv,
                               FZero <- 0, FOne <- 1, FSgn0 <- TSgn0, B3 <- 21 % Q

Points == {TC!Pt(x, y) : x \in Fq, y \in Fq} \cap {P \in [inf : {FALSE}, x : Fq, y : Fq] : TC!OnCurve(P)}
AllPoints == Points \cup {TC!Inf}

\* every projective representation of every group element
RepsOf(P) == IF P.inf THEN {<< 0, Y, 0 >> : Y \in 1..(Q - 1)}
             ELSE {<< TMul(P.x, l), TMul(P.y, l), l >> : l \in 1..(Q - 1)}
AllReps == UNION {RepsOf(P) : P \in AllPoints}

\* the abstraction function: projective triple -> group element
HAbs(H) == IF H[3] = 0 THEN TC!Inf ELSE LET zi == TInv(H[3]) IN TC!Pt(TMul(H[1], zi), TMul(H[2], zi))
ValidRep(H) == IF H[3] = 0 THEN H[1] = 0 /\ H[2] # 0 ELSE TC!OnCurve(HAbs(H))

ASSUME Cardinality(AllPoints) = NOrd
=============================================================================
