-------------------------------- MODULE Xmd --------------------------------
(***************************************************************************)
(* RFC 9380 section 5.3.1 expand_message_xmd with H = SHA-256               *)
(* (b_in_bytes = 32, s_in_bytes = 64) and the oversize-DST rule of 5.3.3.   *)
(* Byte strings are sequences of integers 0..255.                           *)
(***************************************************************************)
EXTENDS Sha256

OversizePrefix == << 72, 50, 67, 45, 79, 86, 69, 82, 83, 73, 90, 69, 45, 68, 83, 84, 45 >>   \* "H2C-OVERSIZE-DST-"

\* 5.3.3: a DST longer than 255 bytes is replaced by H("H2C-OVERSIZE-DST-" || DST)
EffectiveDST(dst) == IF Len(dst) > 255 THEN Sha256(OversizePrefix \o dst) ELSE dst
DSTPrime(dst) == LET d == EffectiveDST(dst) IN d \o << Len(d) >>

XorBytes(a, b) == [i \in 1..Len(a) |-> a[i] ^^ b[i]]

\* defined for a non-empty dst and 0 < len <= 255 * 32; the API's callers use 48 and 96
ExpandMessageXmd(msg, dst, len) ==
  LET ell  == (len + 31) \div 32
      dp   == DSTPrime(dst)
      zpad == [i \in 1..64 |-> 0]
      lib  == << len \div 256, len % 256 >>
      b0   == Sha256(zpad \o msg \o lib \o << 0 >> \o dp)
      b1   == Sha256(b0 \o << 1 >> \o dp)
      \* acc = << b_(i-1), b_1 || ... || b_(i-1) >>
      step(acc, i) == LET bi == Sha256(XorBytes(b0, acc[1]) \o << i >> \o dp) IN << bi, acc[2] \o bi >>
      all  == FoldLeft(step, << b1, b1 >>, [j \in 1..(ell - 1) |-> j + 1])
  IN  SubSeq(all[2], 1, len)
=============================================================================
