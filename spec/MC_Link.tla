------------------------------ MODULE MC_Link ------------------------------
(* Link with the import closure observed in the working tree: TLC enumerates every program. *)
EXTENDS Link, LinkEnv
=============================================================================
