CONSTANTS
  Q = 67
  NOrd = 79
  Dev = "none"
  LamSample = {1, 2, 33, 66}
SPECIFICATION Spec
INVARIANT AllOK
CHECK_DEADLOCK FALSE
