----------------------------- MODULE MC_GroupLaw -----------------------------
(***************************************************************************)
(* C02, C04, C05 at toy scale, exhaustively: for EVERY ordered pair of      *)
(* projective representations (u, v) of group elements -- every scaling of  *)
(* every point, every (0 : Y : 0) -- the implementation-shaped operations   *)
(* agree with the mathematics:                                              *)
(*   RCBAdd(u, v), RCBAdd(u, u), SubImpl, RCBDbl, NegImpl  vs  the affine   *)
(*   law, the relational law IsSum (which must also have the result as its  *)
(*   ONLY solution) and the Jacobian formulas the validator uses;           *)
(*   EqualImpl, IsIdentityImpl  vs  equality of the abstract elements;      *)
(*   AffineImpl / Sec1 encoders  depend on the element only.                *)
(* The second operand is chosen in Next so that TLC's workers share the     *)
(* enumeration (initial states are computed on one thread).                 *)
(***************************************************************************)
EXTENDS Toy, TLC

CONSTANT LamSample       \* scalings of the second operand that are explored (1..Q-1 for the full product)
VARIABLES u, v, ok
vars == << u, v, ok >>

RepsSample == UNION {IF P.inf THEN {<< 0, Y, 0 >> : Y \in LamSample}
                     ELSE {<< TMul(P.x, l), TMul(P.y, l), l >> : l \in LamSample} : P \in AllPoints}

EncodeOf(H) == LET a == Impl!AffineImpl(H) IN IF H[3] = 0 THEN << 0 >> ELSE << 2 + TSgn0(a[2]), a[1] >>

PairOK(a, b) ==
  LET P == HAbs(a)  Qp == HAbs(b)
      s == Impl!RCBAdd(a, b)
      S == TC!AddAffine(P, Qp)
  IN  /\ ValidRep(s) /\ HAbs(s) = S                                    \* Add = the group law, no exceptional cases
      /\ TC!IsSum(P, Qp, S)                                             \* the relational law accepts the sum ...
      /\ \A R \in AllPoints : TC!IsSum(P, Qp, R) => R = S               \* ... and nothing else
      /\ TC!JEqualsAffine(TC!JAddAffine(TC!JOfAffine(P), Qp), S)        \* the validator's Jacobian formulas agree
      /\ HAbs(Impl!SubImpl(a, b)) = TC!AddAffine(P, TC!Neg(Qp))         \* Subtract
      /\ ValidRep(Impl!SubImpl(a, b))
      /\ Impl!EqualImpl(a, b) = (IF P = Qp THEN 1 ELSE 0)                \* Equal is representation-independent
      /\ Impl!EqualImpl(a, b) = Impl!EqualImpl(b, a)                     \* and symmetric
      /\ (P = Qp => EncodeOf(a) = EncodeOf(b))                          \* encodings depend on the element only

SingleOK(a) ==
  LET P == HAbs(a)
  IN  /\ HAbs(Impl!RCBDbl(a)) = TC!AddAffine(P, P) /\ ValidRep(Impl!RCBDbl(a))
      /\ HAbs(Impl!RCBAdd(a, a)) = TC!AddAffine(P, P)                   \* receiver = argument
      /\ HAbs(Impl!SubImpl(a, a)) = TC!Inf
      /\ HAbs(Impl!NegImpl(a)) = TC!Neg(P) /\ ValidRep(Impl!NegImpl(a))
      /\ Impl!IsIdentityImpl(a) = P.inf
      /\ TC!JEqualsAffine(TC!JDbl(TC!JOfAffine(P)), TC!AddAffine(P, P))
      /\ Impl!EqualImpl(a, a) = 1

Init == u \in AllReps /\ v = << 0, 1, 0 >> /\ ok = SingleOK(u)
Next == /\ v = << 0, 1, 0 >> /\ ok
        /\ \E b \in RepsSample \ {<< 0, 1, 0 >>} : v' = b /\ u' = u /\ ok' = PairOK(u, b)
Spec == Init /\ [][Next]_vars
AllOK == ok
=============================================================================
