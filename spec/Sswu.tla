-------------------------------- MODULE Sswu --------------------------------
(***************************************************************************)
(* RFC 9380 section 6.6.2: the simplified SWU map onto                      *)
(*      E' : y^2 = g(x) = x^3 + A x + B,   A # 0, B # 0,                    *)
(* over an abstract field whose order is 3 mod 4, and (section 6.6.3 /      *)
(* appendix E.1) a rational map given by four polynomials.                  *)
(*                                                                         *)
(* The map is stated twice:                                                 *)
(*   MapToCurve(u)     the RFC's definition (needs inv0, is_square, sqrt)   *)
(*   IsMapOf(u, Q)     an inversion- and root-free relation with exactly    *)
(*                     one solution Q on curves without a point of order 2  *)
(*                     (E' has prime order); used for trace validation.     *)
(* MC_Sswu checks  IsMapOf(u, Q) <=> Q = MapToCurve(u)  for every u and Q   *)
(* of toy fields.                                                           *)
(***************************************************************************)
EXTENDS Integers, Sequences

CONSTANTS FAdd(_, _), FSub(_, _), FMul(_, _), FNeg(_), FZero, FOne,
          FInv(_),              \* inv0: 0 |-> 0
          FIsSquare(_),         \* includes 0
          FSqrt(_),             \* some root of a square
          FSgn0(_),
          SA, SB, SZ,           \* curve coefficients of E' and the SSWU constant Z
          Pt(_, _)

FSqr(a) == FMul(a, a)
Gp(x) == FAdd(FAdd(FMul(FSqr(x), x), FMul(SA, x)), SB)

\* ---- RFC 9380 6.6.2, operations as written
MapToCurve(u) ==
  LET u2  == FSqr(u)
      tv1 == FInv(FAdd(FMul(FSqr(SZ), FSqr(u2)), FMul(SZ, u2)))
      x1a == FMul(FMul(FNeg(SB), FInv(SA)), FAdd(FOne, tv1))
      x1  == IF tv1 = FZero THEN FMul(SB, FInv(FMul(SZ, SA))) ELSE x1a
      gx1 == Gp(x1)
      x2  == FMul(FMul(SZ, u2), x1)
      gx2 == Gp(x2)
      x   == IF FIsSquare(gx1) THEN x1 ELSE x2
      y0  == IF FIsSquare(gx1) THEN FSqrt(gx1) ELSE FSqrt(gx2)
      y   == IF FSgn0(u) # FSgn0(y0) THEN FNeg(y0) ELSE y0
  IN  Pt(x, y)

\* ---- relational form
\* t = Z^2 u^4 + Z u^2.  x1 is the solution of  x1 * A * t = -B (t + 1)   (t # 0)
\*                                          or  x1 * Z * A = B            (t = 0),
\* x2 = Z u^2 x1, hence x2 * A * t = -Z u^2 B (t + 1).
\* g(x2) = (Z u^2)^3 g(x1) and Z is a non-square, so when Q is on E' with Q.y # 0:
\*   Q.x = x1  =>  g(x1) is a square (the RFC picks x1);
\*   Q.x = x2  =>  g(x2) is a non-zero square, so g(x1) is a non-square (the RFC picks x2).
IsMapOf(u, Q) ==
  LET zu2 == FMul(SZ, FSqr(u))
      t   == FAdd(FSqr(zu2), zu2)
      rhs == FNeg(FMul(SB, FAdd(t, FOne)))
      at  == FMul(SA, t)
  IN  /\ ~Q.inf
      /\ FSqr(Q.y) = Gp(Q.x)
      /\ Q.y # FZero
      /\ FSgn0(Q.y) = FSgn0(u)
      /\ IF t = FZero
         THEN FMul(Q.x, FMul(SZ, SA)) = SB
         ELSE \/ FMul(Q.x, at) = rhs
              \/ FMul(Q.x, at) = FMul(zu2, rhs)

\* the three u for which the exceptional branch is taken
IsExceptional(u) == LET zu2 == FMul(SZ, FSqr(u)) IN FAdd(FSqr(zu2), zu2) = FZero
=============================================================================
