----------------------------- MODULE Secp256k1 -----------------------------
(***************************************************************************)
(* The real-scale instantiation: F_p and Z/nZ over BigNat, the curve        *)
(* secp256k1 (C!...) and the 3-isogenous curve E' of RFC 9380 8.7 (CI!...). *)
(***************************************************************************)
EXTENDS Params

\* ---- F_p
PAdd(a, b) == AddM(a, b, PM)
PSub(a, b) == SubM(a, b, PM)
PMul(a, b) == MulM(a, b, PM)
PNeg(a)    == NegM(a, PM)
PSqr(a)    == SqrM(a, PM)
PZero == ZeroN(W)
POne  == FromIntW(1)
InFp(a) == IsReduced(a, PM)

\* left-to-right square-and-multiply; e is a BigNat exponent.  Iterated with FoldLeft, NOT with a
\* recursive operator: TLC's evaluation context grows with recursion depth and a 256-deep recursion
\* over BigNat values is ~20x slower (measured: 25 s against 1.3 s per exponentiation).
PPow(a, e) ==
  LET nb == 12 * Len(e)
      step(acc, i) == IF Bit(e, i) = 1 THEN PMul(PSqr(acc), a) ELSE PSqr(acc)
  IN  FoldLeft(step, POne, [j \in 1..nb |-> nb - j])
PInv(a) == PPow(a, P_minus2)                        \* 0 |-> 0
PIsSquare(a) == LET l == PPow(a, P_minus1_div2) IN l = POne \/ l = PZero
PSqrt(a) == PPow(a, P_plus1_div4)                   \* a root when a is a square (p = 3 mod 4)
PSgn0(a) == a[1] % 2

\* ---- Z/nZ
NAdd(a, b) == AddM(a, b, NM)
NSub(a, b) == SubM(a, b, NM)
NMul(a, b) == MulM(a, b, NM)
NNeg(a)    == NegM(a, NM)
NZero == ZeroN(W)
NOne  == FromIntW(1)
InZn(a) == IsReduced(a, NM)

C  == INSTANCE Curve WITH FAdd <- PAdd, FSub <- PSub, FMul <- PMul, FNeg <- PNeg, FInv <- PInv,
                          FZero <- PZero, FOne <- POne, CA <- PZero, CB <- CurveB
CI == INSTANCE Curve WITH FAdd <- PAdd, FSub <- PSub, FMul <- PMul, FNeg <- PNeg, FInv <- PInv,
                          FZero <- PZero, FOne <- POne, CA <- IsoA, CB <- IsoB

BaseG == C!Pt(G_x, G_y)
=============================================================================
