CONSTANT Depth = 100
INIT Init
NEXT Next
CHECK_DEADLOCK FALSE
