CONSTANTS
  NG = 2
  Keys = {1, 2}
  Design = "one_section"
SPECIFICATION Spec
INVARIANT Deterministic
INVARIANT NoRace
CHECK_DEADLOCK FALSE
