CONSTANTS
  Q = 43
  NOrd = 31
  Dev = "none"
  L = 5
  LamSample = {1, 2, 21, 42}
SPECIFICATION Spec
INVARIANT AllOK
CHECK_DEADLOCK FALSE
