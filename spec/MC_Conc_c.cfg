CONSTANTS
  NG = 2
  Off = 1
  Len_ = 2
  Cap = 3
  InPlace = FALSE
SPECIFICATION Spec
INVARIANT CallerMemoryUnchanged
INVARIANT NoRace
INVARIANT Deterministic
CHECK_DEADLOCK FALSE
