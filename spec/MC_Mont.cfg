CONSTANTS
  WBits = 4
  K = 2
  M = 251
  Dev = "none"
SPECIFICATION Spec
INVARIANT AllOK
CHECK_DEADLOCK FALSE
