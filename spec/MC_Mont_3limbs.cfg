CONSTANTS
  WBits = 3
  K = 3
  M = 509
  Dev = "none"
SPECIFICATION Spec
INVARIANT AllOK
CHECK_DEADLOCK FALSE
