CONSTANTS
  Q = 79
  TA = 1
  TB = 14
  TZ = 28
SPECIFICATION Spec
INVARIANT AllOK
CHECK_DEADLOCK FALSE
