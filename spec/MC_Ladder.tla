------------------------------ MODULE MC_Ladder ------------------------------
(***************************************************************************)
(* C01, C14, C19 at toy scale, exhaustively: for EVERY projective           *)
(* representation u of EVERY group element and EVERY scalar k in 0..n-1,    *)
(*   - the implementation-shaped Montgomery ladder over the L-bit expansion *)
(*     of k (L is one more than needed, so leading zero bits occur) returns *)
(*     a representation of the literal k-fold sum KFold(k, P);              *)
(*   - the double-and-add the trace validator uses (Curve!SMulBits, other   *)
(*     formulas, other ladder) returns the same element -- the oracle is    *)
(*     checked against the definition it stands for;                        *)
(*   - the bit expansion has exactly L entries in {0,1} that reconstruct k; *)
(*   - the schedule of field-level operation groups is the same for every   *)
(*     k # 1 (2-safety, by comparison with the schedule for k = 0).         *)
(***************************************************************************)
EXTENDS Toy, TLC

CONSTANTS L, LamSample
VARIABLES u, k, ok
vars == << u, k, ok >>

RECURSIVE Pow2T(_)
Pow2T(i) == IF i = 0 THEN 1 ELSE 2 * Pow2T(i - 1)
BitsOf(n) == [i \in 1..L |-> (n \div Pow2T(i - 1)) % 2]
RECURSIVE Recon(_, _)
Recon(bits, i) == IF i > Len(bits) THEN 0 ELSE bits[i] * Pow2T(i - 1) + Recon(bits, i + 1)
MsbFirst(bits) == [j \in 1..Len(bits) |-> bits[Len(bits) + 1 - j]]

RECURSIVE SchedOf(_, _)
SchedOf(bits, i) == IF i = 0 THEN << >> ELSE Impl!StepSchedule(bits[i]) \o SchedOf(bits, i - 1)

RepsSample == UNION {IF P.inf THEN {<< 0, Y, 0 >> : Y \in LamSample}
                     ELSE {<< TMul(P.x, l), TMul(P.y, l), l >> : l \in LamSample} : P \in AllPoints}

ScalarOK(a, n) ==
  LET P == HAbs(a)
      bits == BitsOf(n)
      want == TC!KFold(n, P)
      got == Impl!LadderImpl(a, bits, n = 1)
  IN  /\ Len(bits) = L /\ \A i \in 1..L : bits[i] \in {0, 1}
      /\ Recon(bits, 1) = n
      /\ ValidRep(got) /\ HAbs(got) = want
      /\ TC!JEqualsAffine(TC!SMulBits(MsbFirst(bits), P), want)
      /\ (n # 1 => SchedOf(bits, L) = SchedOf(BitsOf(0), L))

Init == u \in RepsSample /\ k = -1 /\ ok = TRUE
Next == /\ k = -1 /\ ok
        /\ \E n \in 0..(NOrd - 1) : k' = n /\ u' = u /\ ok' = ScalarOK(u, n)
Spec == Init /\ [][Next]_vars
AllOK == ok
=============================================================================
