------------------------------ MODULE MC_Random ------------------------------
(***************************************************************************)
(* C18 at toy scale, exhaustively.  Blocks are 2 bytes, n = 65521 (so       *)
(* 2^16 < 2n, as 2^256 < 2n for secp256k1).  For EVERY entropy stream of at *)
(* most MaxLen bytes over Alpha (whose values build the blocks 0, n, n+1,   *)
(* 2^16-1, 1, ...), EVERY way of cutting it into Reads and the source       *)
(* failing at its end, the implementation-shaped machine                    *)
(*     Draw (io.ReadFull: Reads until the block is full, or the source      *)
(*           fails -> Panic)                                                *)
(*     Reduce (big-endian value, ONE conditional subtraction of n)          *)
(*     Retry (value 0: draw again)  /  Finish                               *)
(* ends in exactly the outcome RandomSrc!Outcome prescribes: the first      *)
(* block that is non-zero mod n, reduced -- in [1, n-1] -- or a panic with  *)
(* the receiver untouched.  Deviations: "zero-check-before-reduce",         *)
(* "single-read", "no-retry".                                               *)
(***************************************************************************)
EXTENDS Integers, Sequences, FiniteSets, TLC

CONSTANTS Alpha, MaxLen, Dev
N == 65521
BLen == 2

Val(b) == b[1] * 256 + b[2]
Residue(b) == Val(b) % N
Src == INSTANCE RandomSrc WITH BL <- BLen, ROfBlock <- Residue, RZero <- 0

VARIABLES data, pos, buf, pc, recv
vars == << data, pos, buf, pc, recv >>
Prior == 7          \* the receiver's value before the call

RECURSIVE SeqsUpTo(_)
SeqsUpTo(k) == IF k = 0 THEN {<< >>} ELSE LET S == SeqsUpTo(k - 1) IN S \cup {Append(s, x) : s \in {t \in S : Len(t) = k - 1}, x \in Alpha}

Init == data \in SeqsUpTo(MaxLen) /\ pos = 0 /\ buf = << >> /\ pc = "draw" /\ recv = Prior

\* one Read of the source: any number of the missing bytes that are still available, or failure when exhausted
Read == /\ pc = "draw"
        /\ IF pos = Len(data)
           THEN /\ pc' = (IF Dev = "single-read" /\ buf # << >> THEN "reduce" ELSE "panic") /\ UNCHANGED << data, pos, buf, recv >>
           ELSE \E k \in 1..(BLen - Len(buf)) :
                  /\ pos + k <= Len(data)
                  /\ buf' = buf \o SubSeq(data, pos + 1, pos + k)
                  /\ pos' = pos + k
                  /\ pc' = IF Len(buf') = BLen \/ Dev = "single-read" THEN "reduce" ELSE "draw"
                  /\ UNCHANGED << data, recv >>

Reduce == /\ pc = "reduce"
          /\ LET full == buf \o [i \in 1..(BLen - Len(buf)) |-> 0]      \* ("single-read": a short block is zero-padded)
                 v == Val(full)
                 r == IF v >= N THEN v - N ELSE v                        \* one conditional subtraction suffices: 2^16 < 2n
                 isZero == IF Dev = "zero-check-before-reduce" THEN v = 0 ELSE r = 0
             IN  IF isZero /\ Dev # "no-retry"
                 THEN pc' = "draw" /\ buf' = << >> /\ UNCHANGED << data, pos, recv >>
                 ELSE pc' = "done" /\ recv' = r /\ UNCHANGED << data, pos, buf >>

Next == Read \/ Reduce
Spec == Init /\ [][Next]_vars

Conforms ==
  LET o == Src!Outcome(data)
  IN  /\ (pc = "done" => ~o.panic /\ recv = o.v /\ recv \in 1..(N - 1) /\ pos = o.used)
      /\ (pc = "panic" => o.panic /\ recv = Prior)
\* the machine always terminates in done or panic (no other stuck state)
Progress == pc \in {"draw", "reduce"} => ENABLED Next
=============================================================================
