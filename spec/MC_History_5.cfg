CONSTANTS
  Q = 43
  NOrd = 31
  Dev = "none"
  NEl = 2
  NSc = 1
  MaxCalls = 5
  ScalarConsts = {0, 1, 2, 3, 29, 30}
  BaseX = 2
  BaseY = 12
  DecodeInputs <- DecodeInputsDef
SPECIFICATION Spec
INVARIANT AllValid
INVARIANT ObserversAgree
PROPERTY Refinement
VIEW StateView
CHECK_DEADLOCK FALSE
