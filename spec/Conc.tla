-------------------------------- MODULE Conc --------------------------------
(***************************************************************************)
(* C15 / C16: Go slices, append, and goroutines sharing a DST.              *)
(*                                                                         *)
(* Memory is one array `mem` of byte cells.  The caller's DST is the slice  *)
(* (Off, Len, Cap) of it; cells Off+Len+1 .. Off+Cap are spare capacity the *)
(* caller owns (another value may live there).  NG goroutines each call a   *)
(* hashing function with that same slice.  The callee must build           *)
(* DST' = DST || I2OSP(len, 1).  Two ways (constant InPlace):               *)
(*   FALSE  allocate a private buffer, copy, append   (the repaired code)   *)
(*   TRUE   slices.Grow(dst, 1) then append(dst, len) (the pinned tree):    *)
(*          when Len < Cap the append writes INTO the caller's array.       *)
(* Every read and write of a shared cell is one atomic step, so TLC         *)
(* explores every interleaving.  Go has no synchronisation between these    *)
(* calls, so two accesses to one cell by different goroutines, one of them  *)
(* a write, are a data race whatever the interleaving: the algorithm        *)
(* records who read and wrote each cell and NoRace checks it.               *)
(***************************************************************************)
EXTENDS Integers, Sequences, FiniteSets, TLC

CONSTANTS NG, Off, Len_, Cap, InPlace

Cells == 1..(Off + Cap + 1)
Sentinel == 9
InitMem == [c \in Cells |-> IF c > Off /\ c <= Off + Len_ THEN c ELSE Sentinel]

(* --algorithm conc
variables mem = InitMem,
          readers = [c \in Cells |-> {}],
          writers = [c \in Cells |-> {}],
          out = [g \in 1..NG |-> << >>];        \* DST' as each goroutine ends up hashing it

process g \in 1..NG
variables i = 1, priv = << >>;
begin
  Copy:
    while i <= Len_ do
      if ~InPlace \/ Len_ = Cap then
        \* read the caller's cell into the private buffer
        readers[Off + i] := readers[Off + i] \cup {self};
        priv := Append(priv, mem[Off + i]);
      end if;
      i := i + 1;
    end while;
  Suffix:
    if InPlace /\ Len_ < Cap then
      \* append in place: the length byte lands in the caller's spare capacity
      writers[Off + Len_ + 1] := writers[Off + Len_ + 1] \cup {self};
      mem[Off + Len_ + 1] := Len_;
    else
      priv := Append(priv, Len_);
    end if;
  Hash:
    if InPlace /\ Len_ < Cap then
      \* the hash reads DST' from the shared array, cell by cell
      i := 1;
      Rd:
        while i <= Len_ + 1 do
          readers[Off + i] := readers[Off + i] \cup {self};
          priv := Append(priv, mem[Off + i]);
          i := i + 1;
        end while;
    end if;
  Done_:
    out[self] := priv;
end process;
end algorithm; *)
\* BEGIN TRANSLATION
VARIABLES pc, mem, readers, writers, out, i, priv

vars == << pc, mem, readers, writers, out, i, priv >>

ProcSet == (1..NG)

Init == (* Global variables *)
        /\ mem = InitMem
        /\ readers = [c \in Cells |-> {}]
        /\ writers = [c \in Cells |-> {}]
        /\ out = [g \in 1..NG |-> << >>]
        (* Process g *)
        /\ i = [self \in 1..NG |-> 1]
        /\ priv = [self \in 1..NG |-> << >>]
        /\ pc = [self \in ProcSet |-> "Copy"]

Copy(self) == /\ pc[self] = "Copy"
              /\ IF i[self] <= Len_
                    THEN /\ IF ~InPlace \/ Len_ = Cap
                               THEN /\ readers' = [readers EXCEPT ![Off + i[self]] = readers[Off + i[self]] \cup {self}]
                                    /\ priv' = [priv EXCEPT ![self] = Append(priv[self], mem[Off + i[self]])]
                               ELSE /\ TRUE
                                    /\ UNCHANGED << readers, priv >>
                         /\ i' = [i EXCEPT ![self] = i[self] + 1]
                         /\ pc' = [pc EXCEPT ![self] = "Copy"]
                    ELSE /\ pc' = [pc EXCEPT ![self] = "Suffix"]
                         /\ UNCHANGED << readers, i, priv >>
              /\ UNCHANGED << mem, writers, out >>

Suffix(self) == /\ pc[self] = "Suffix"
                /\ IF InPlace /\ Len_ < Cap
                      THEN /\ writers' = [writers EXCEPT ![Off + Len_ + 1] = writers[Off + Len_ + 1] \cup {self}]
                           /\ mem' = [mem EXCEPT ![Off + Len_ + 1] = Len_]
                           /\ priv' = priv
                      ELSE /\ priv' = [priv EXCEPT ![self] = Append(priv[self], Len_)]
                           /\ UNCHANGED << mem, writers >>
                /\ pc' = [pc EXCEPT ![self] = "Hash"]
                /\ UNCHANGED << readers, out, i >>

Hash(self) == /\ pc[self] = "Hash"
              /\ IF InPlace /\ Len_ < Cap
                    THEN /\ i' = [i EXCEPT ![self] = 1]
                         /\ pc' = [pc EXCEPT ![self] = "Rd"]
                    ELSE /\ pc' = [pc EXCEPT ![self] = "Done_"]
                         /\ i' = i
              /\ UNCHANGED << mem, readers, writers, out, priv >>

Rd(self) == /\ pc[self] = "Rd"
            /\ IF i[self] <= Len_ + 1
                  THEN /\ readers' = [readers EXCEPT ![Off + i[self]] = readers[Off + i[self]] \cup {self}]
                       /\ priv' = [priv EXCEPT ![self] = Append(priv[self], mem[Off + i[self]])]
                       /\ i' = [i EXCEPT ![self] = i[self] + 1]
                       /\ pc' = [pc EXCEPT ![self] = "Rd"]
                  ELSE /\ pc' = [pc EXCEPT ![self] = "Done_"]
                       /\ UNCHANGED << readers, i, priv >>
            /\ UNCHANGED << mem, writers, out >>

Done_(self) == /\ pc[self] = "Done_"
               /\ out' = [out EXCEPT ![self] = priv[self]]
               /\ pc' = [pc EXCEPT ![self] = "Done"]
               /\ UNCHANGED << mem, readers, writers, i, priv >>

g(self) == Copy(self) \/ Suffix(self) \/ Hash(self) \/ Rd(self)
              \/ Done_(self)

(* Allow infinite stuttering to prevent deadlock on termination. *)
Terminating == /\ \A self \in ProcSet: pc[self] = "Done"
               /\ UNCHANGED vars

Next == (\E self \in 1..NG: g(self))
           \/ Terminating

Spec == Init /\ [][Next]_vars

Termination == <>(\A self \in ProcSet: pc[self] = "Done")

\* END TRANSLATION

\* C15: the caller's array is never written, in particular not its spare capacity
CallerMemoryUnchanged == mem = InitMem
\* C16: no cell is written by one goroutine and accessed by another
NoRace == \A c \in Cells : \A w \in writers[c] : (readers[c] \cup writers[c]) \subseteq {w}
\* every call hashes exactly DST || len
Expected == [k \in 1..(Len_ + 1) |-> IF k <= Len_ THEN Off + k ELSE Len_]
Deterministic == \A p \in 1..NG : pc[p] = "Done" => out[p] = Expected
=============================================================================
