-------------------------------- MODULE Limbs --------------------------------
(***************************************************************************)
(* Implementation-shaped limb arithmetic at a generic width: values are     *)
(* little-endian sequences of K limbs of WBits bits (the code: 4 x 64).     *)
(* The constant-time idioms of scalar.go / internal/*/element.go:           *)
(*   SubBorrow      the bits.Sub64 chain, returning difference and borrow   *)
(*   LeChain        LessOrEqual: equal | borrow                             *)
(*   ReduceOnce     one conditional subtraction of the modulus, flag = 1    *)
(*                  iff the input was already reduced                       *)
(*   CMovMask       (u & ~mask) | (v & mask), mask = cond * (2^W - 1)       *)
(*   IsNonZeroWord  the 0/1 normalisation of a condition word               *)
(*   BitAt          bit extraction limb[i / W] >> (i % W) & 1               *)
(* Dev selects named deviations (the defects found on the pinned tree).     *)
(***************************************************************************)
EXTENDS Integers, Sequences, SequencesExt, Bitwise

CONSTANTS WBits, K, Dev

RECURSIVE P2(_)
P2(i) == IF i = 0 THEN 1 ELSE 2 * P2(i - 1)
Base == P2(WBits)
Top == P2(WBits * K)

ToLimbs(v) == [i \in 1..K |-> (v \div P2(WBits * (i - 1))) % Base]
RECURSIVE ValFrom(_, _)
ValFrom(l, i) == IF i > Len(l) THEN 0 ELSE l[i] * P2(WBits * (i - 1)) + ValFrom(l, i + 1)
Val(l) == ValFrom(l, 1)

\* bits.Sub64 chain: << difference limbs, final borrow >>
SubBorrow(a, b) ==
  LET step(st, i) == LET d == a[i] - b[i] - st[2]
                     IN  IF d < 0 THEN << Append(st[1], d + Base), 1 >> ELSE << Append(st[1], d), 0 >>
  IN  FoldLeft(step, << << >>, 0 >>, [i \in 1..K |-> i])

IsZeroWord(w) == IF w = 0 THEN 1 ELSE 0
IsNonZeroWord(w) == IF w = 0 THEN 0 ELSE 1

\* Scalar.LessOrEqual on limbs
LeChain(a, b) ==
  LET sb == SubBorrow(a, b)
      orAll == FoldLeft(LAMBDA acc, x : acc | x, 0, sb[1])
  IN  IF IsZeroWord(orAll) = 1 \/ sb[2] = 1 THEN 1 ELSE 0

\* Reduce: x - m with borrow; mask = -borrow selects x (already reduced) or x - m
ReduceOnce(x, m) ==
  LET sb == SubBorrow(x, m)
  IN  [flag |-> sb[2], v |-> IF sb[2] = 1 THEN x ELSE sb[1]]

\* Selectznz / cmovznz: the condition is multiplied into a mask
CMovMask(c, u, v) ==
  LET cc == IF Dev = "cmov-raw-cond" THEN c ELSE IsNonZeroWord(c)
      mask == (cc * (Base - 1)) % Base
  IN  [i \in 1..K |-> ((u[i] & ((Base - 1) - mask)) | (v[i] & mask))]

BitAt(l, i) == (l[(i \div WBits) + 1] \div P2(i % WBits)) % 2
BitsOfLimbs(l, n) == [i \in 1..n |-> IF Dev = "bits-drop-top" /\ i = n THEN 0 ELSE BitAt(l, i - 1)]
=============================================================================
