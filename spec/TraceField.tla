----------------------------- MODULE TraceField -----------------------------
(***************************************************************************)
(* Trace validation of the base-field layer and of the map-to-curve         *)
(* functions against FieldAbs.  Same scheme as TraceSecp: after every call  *)
(* the harness logs Bytes() of EVERY register plus, per register, whether   *)
(* the stored representation equals the canonical one rebuilt from those    *)
(* bytes (a non-canonical stored value is invisible to Bytes but not to     *)
(* Equals).  F' is bound to the observation, the FieldAbs action is         *)
(* evaluated as a predicate.                                                *)
(***************************************************************************)
EXTENDS H2C, Json, IOUtils, TLC

Trace == ndJsonDeserialize(IOEnv.VERIF_TRACE)
NFv == Trace[1].nf
VARIABLES F, l, mode, nbad, nmach
tvars == << F, l, mode, nbad, nmach >>
Ev == Trace[l]

Abs == INSTANCE FieldAbs WITH NF <- NFv

BytesOk(bs) == Len(bs) = 32 /\ Lt(OS2IP(bs), P_m)
OS2IPW(bs) == Pad(OS2IP(bs), W)
ObsF == Conc([v \in 1..NFv |-> IF BytesOk(Ev.obs.F[v]) THEN [st |-> "ok", v |-> OS2IPW(Ev.obs.F[v])] ELSE [st |-> "invalid", v |-> PZero]])

PtOf(xb, yb) == CI!Pt(OS2IPW(xb), OS2IPW(yb))

\* result element of the isogeny: Encode() bytes + witness y (as in TraceSecp)
ReadResult(o) ==
  IF o.id THEN (IF o.enc = << 0 >> THEN [st |-> "ok", p |-> C!Inf] ELSE [st |-> "invalid", p |-> C!Inf])
  ELSE IF Len(o.enc) # 33 \/ o.enc[1] \notin {2, 3} \/ ~BytesOk(SubSeq(o.enc, 2, 33)) THEN [st |-> "invalid", p |-> C!Inf]
  ELSE IF ~BytesOk(o.y) THEN [st |-> "cert", p |-> C!Inf]
  ELSE LET px == OS2IPW(SubSeq(o.enc, 2, 33))  w == OS2IPW(o.y)  g == C!G(px)
       IN  IF PSqr(w) = g THEN [st |-> "ok", p |-> C!Pt(px, IF PSgn0(w) = o.enc[1] % 2 THEN w ELSE PNeg(w))]
           ELSE IF g # PZero /\ PSqr(w) = PNeg(g) THEN [st |-> "invalid", p |-> C!Inf]
           ELSE [st |-> "cert", p |-> C!Inf]

Holds(e) ==
  CASE e.op = "FNew"       -> Abs!FNew(e.d)
    [] e.op = "FOne"       -> Abs!FOne(e.d)
    [] e.op = "FSet"       -> Abs!FSet(e.d, e.a)
    [] e.op = "FAdd"       -> Abs!FAdd(e.d, e.a, e.b)
    [] e.op = "FSub"       -> Abs!FSub(e.d, e.a, e.b)
    [] e.op = "FMul"       -> Abs!FMul(e.d, e.a, e.b)
    [] e.op = "FSqr"       -> Abs!FSqr(e.d, e.a)
    [] e.op = "FNeg"       -> Abs!FNeg(e.d, e.a)
    [] e.op = "FInvert"    -> Abs!FInvert(e.d, e.a)
    [] e.op = "FSqrtRatio" -> Abs!FSqrtRatio(e.d, e.a, e.b, e.ret)
    [] e.op = "FCMove"     -> Abs!FCMove(e.d, e.c, e.a, e.b)
    [] e.op = "FFromBytes" -> Abs!FFromBytes(e.d, e.data, e.ret)
    [] e.op = "FWide"      -> Abs!FWide(e.d, e.data)
    [] e.op = "FBytes"     -> Abs!FBytes(e.a, e.ret)
    [] e.op = "FSgn0"      -> Abs!FSgn0(e.a, e.ret)
    [] e.op = "FIsZero"    -> Abs!FIsZero(e.a, e.ret)
    [] e.op = "FEquals"    -> Abs!FEquals(e.a, e.b, e.ret)
    [] e.op = "FSetInt"    -> BytesOk(e.v) /\ F'[e.d] = OS2IPW(e.v) /\ Abs!FFrame(e.d)      \* setup (Montgomery limbs written directly)
    [] e.op = "MPoly"      -> Abs!MPoly(e.d, e.a)
    [] e.op = "MSswu"      -> BytesOk(e.x) /\ BytesOk(e.y) /\ Abs!MSswu(e.a, PtOf(e.x, e.y))
    [] e.op = "MIso"       -> BytesOk(e.x) /\ BytesOk(e.y) /\ Abs!MIso(PtOf(e.x, e.y), ReadResult(e.res).p)
    [] e.op = "NWide"      -> Abs!NWide(e.data, e.ret)

Dest(e) == IF e.op \in {"FNew", "FOne", "FSet", "FAdd", "FSub", "FMul", "FSqr", "FNeg", "FInvert", "FSqrtRatio", "FCMove",
                        "FFromBytes", "FWide", "FSetInt", "MPoly"} THEN {e.d} ELSE {}

TraceInit == /\ Trace[1].op = "Header" /\ F = Conc([v \in 1..NFv |-> PZero])
             /\ l = 2 /\ mode = "run" /\ nbad = 0 /\ nmach = 0

Verdict(of) ==
  IF \E v \in 1..NFv : of[v].st = "invalid"
    THEN << "DISAGREE", "noncanonical-bytes", CHOOSE v \in 1..NFv : of[v].st = "invalid" >>
  ELSE IF \E v \in 1..NFv : Ev.obs.eq[v] # 1
    THEN << "DISAGREE", "noncanonical-stored-value", CHOOSE v \in 1..NFv : Ev.obs.eq[v] # 1 >>
  ELSE IF Ev.op = "MIso" /\ ReadResult(Ev.res).st = "cert"
    THEN << "MACHINERY", "witness", 0 >>
  ELSE IF Ev.op = "MIso" /\ ReadResult(Ev.res).st = "invalid"
    THEN << "DISAGREE", "invalid-result", 0 >>
  ELSE IF \E v \in 1..NFv : v \notin Dest(Ev) /\ F'[v] # F[v]
    THEN << "DISAGREE", "frame", {v \in 1..NFv : v \notin Dest(Ev) /\ F'[v] # F[v]} >>
  ELSE IF ~Holds(Ev) THEN << "DISAGREE", "result", 0 >>
  ELSE << "OK", "", 0 >>

RunStep ==
  \E of \in {ObsF} :
  /\ F' = Conc([v \in 1..NFv |-> of[v].v])
  /\ \E verdict \in {Verdict(of)} :
       /\ (verdict[1] # "OK" => PrintT(<< verdict[1], l, Ev.op, verdict[2], verdict[3] >>))
       /\ mode' = IF verdict[1] = "OK" THEN "run" ELSE "skip"
       /\ nbad' = IF verdict[1] = "DISAGREE" THEN nbad + 1 ELSE nbad
       /\ nmach' = IF verdict[1] = "MACHINERY" THEN nmach + 1 ELSE nmach

\* a new history: fresh registers (field.New()), all zero
ResetStep ==
  \E of \in {ObsF} :
  /\ F' = Conc([v \in 1..NFv |-> of[v].v])
  /\ LET good == \A v \in 1..NFv : of[v].st = "ok" /\ of[v].v = PZero
     IN  /\ (~good => PrintT(<< "DISAGREE", l, "FReset", "state", "a fresh field element is not 0" >>))
         /\ mode' = IF good THEN "run" ELSE "skip"
         /\ nbad' = IF good THEN nbad ELSE nbad + 1
         /\ nmach' = nmach

TraceNext ==
  /\ l <= Len(Trace) /\ l' = l + 1
  /\ IF Ev.op = "FReset" THEN ResetStep
     ELSE IF mode = "skip" THEN UNCHANGED << F, mode, nbad, nmach >>
     ELSE RunStep

TraceSpec == TraceInit /\ [][TraceNext]_tvars
Finished == l = Len(Trace) + 1 => PrintT(<< "TRACE-END", Len(Trace), nbad, nmach >>)
CanonicalInv == Abs!Canonical
TraceAccepted == TLCGet("stats").diameter = Len(Trace)
=============================================================================
