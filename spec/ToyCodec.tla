------------------------------ MODULE ToyCodec ------------------------------
(***************************************************************************)
(* Toy instantiation of the SEC1 codec (one-byte coordinates) and the       *)
(* implementation-shaped decoders / encoders of element.go over the toy     *)
(* field.  Shared by MC_Decode (every byte string) and MC_History (decoding *)
(* and encoding as transitions of histories).                               *)
(***************************************************************************)
EXTENDS Toy

OfB(bs) == bs[1]
InR(bs) == bs[1] < Q
ToB(e) == << e >>
TSqr(x) == TMul(x, x)

Sec == INSTANCE Sec1 WITH CL <- 1, FOfBytes <- OfB, InRange <- InR, FBytes <- ToB, FSgn0 <- TSgn0,
                          FSqr <- TSqr, FNeg <- TNeg, FZero <- 0, G <- TC!G, Inf <- TC!Inf, Pt <- TC!Pt

\* element.go's DecodeCompressed / DecodeCoordinates / Decode as straight-line steps
ImplDecode(bs) ==
  LET rej == [res |-> "reject", p |-> TC!Inf]
      coords(xb, yb) ==
        IF (Dev # "decode-no-range-check" /\ (xb >= Q \/ yb >= Q)) THEN rej
        ELSE LET x == xb % Q  y == yb % Q
             IN  IF TMul(y, y) = TC!G(x) THEN [res |-> "accept", p |-> TC!Pt(x, y)] ELSE rej
      comp(pfx, xb) ==
        IF ~(pfx \in {2, 3} \/ (Dev = "decode-hybrid-ok" /\ pfx \in {6, 7})) THEN rej
        ELSE IF Dev # "decode-no-range-check" /\ xb >= Q THEN rej
        ELSE LET x == xb % Q  y2 == TC!G(x)
             IN  IF ~TIsSquare(y2) THEN rej
                 ELSE LET y == TSqrt(y2)
                          cond == (TSgn0(y) + pfx) % 2             \* y.Sgn0() ^ (prefix & 1)
                          pick == IF Dev = "decode-wrong-parity" THEN 1 - cond ELSE cond
                      IN  [res |-> "accept", p |-> TC!Pt(x, IF pick = 1 THEN TNeg(y) ELSE y)]
  IN  CASE Len(bs) = 1 -> IF bs[1] = 0 THEN [res |-> "accept", p |-> TC!Inf] ELSE rej
        [] Len(bs) = 2 -> comp(bs[1], bs[2])
        [] Len(bs) = 3 -> IF bs[1] # 4 THEN rej ELSE coords(bs[2], bs[3])
        [] OTHER -> rej


\* Encode() as implemented: through affine(), prefix from the parity of y, the single byte 00 for Z = 0
EncodeImpl(H) == LET a == Impl!AffineImpl(H) IN IF H[3] = 0 THEN << 0 >> ELSE << 2 + TSgn0(a[2]), a[1] >>
EncodeUncImpl(H) == LET a == Impl!AffineImpl(H) IN IF H[3] = 0 THEN << 0 >> ELSE << 4, a[1], a[2] >>
\* the projective triple a successful decode leaves in the receiver
RepOfDecoded(d) == IF d.p.inf THEN << 0, 1, 0 >> ELSE << d.p.x, d.p.y, 1 >>
=============================================================================
