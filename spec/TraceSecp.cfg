SPECIFICATION TraceSpec
INVARIANT Finished
INVARIANT Valid
POSTCONDITION TraceAccepted
CHECK_DEADLOCK FALSE
