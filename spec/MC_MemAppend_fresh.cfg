CONSTANTS
  NCells = 6
  Strategy = "fresh"
SPECIFICATION Spec
INVARIANT CallerMemoryUnchanged
INVARIANT Correct
CHECK_DEADLOCK FALSE
