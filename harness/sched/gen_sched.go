package main

// C19: the sequence of field-level operations executed by Element.Multiply.  Built only together with
// the instrumented copies of internal/field and internal/scalar (every function reports its entry).

import (
	"math/big"
	"strings"

	"github.com/bytemare/secp256k1"
	"github.com/bytemare/secp256k1/internal/field"
	"github.com/bytemare/secp256k1/internal/scalar"
)

var schedScalarClasses = []string{"zero", "two", "three", "minus_one", "minus_two", "pow2", "pow2_255", "top_bit_set",
	"sparse", "dense", "small", "half_up", "limb_pattern", "random", "random", "random", "curve_constant", "curve_constant",
	"mont_window", "word_structure", "near_n", "mont_near_const"}

func genC19(m *M, nPoints, nScalars int) {
	var seq []int
	hook := func(id int) { seq = append(seq, id) }
	for p := 0; p < nPoints; p++ {
		if m.w == nil || m.inShard >= m.perFile {
			m.openShard()
		}
		// a point in some representation
		var base *secp256k1.Element
		cls := ""
		switch p % 4 {
		case 0:
			base, cls = secp256k1.Base(), "base"
		case 1:
			base, cls = secp256k1.HashToGroup(m.randBytes(8), []byte("verif-c19")), "hashed"
		case 2:
			base, cls = secp256k1.Base().Double(), "non_normalised"
		default:
			base, cls = secp256k1.NewElement(), "identity"
		}
		m.hist++
		m.class("point:" + cls)
		for k := 0; k < nScalars; k++ {
			sc := schedScalarClasses[(k+p)%len(schedScalarClasses)]
			v := m.scalarOf(sc)
			if v.Cmp(big.NewInt(1)) == 0 {
				v = big.NewInt(2) // k = 1 is the one documented shortcut
			}
			// the call, and sometimes the SAME call again (same scalar, same point in the same representation) straight
			// away or after one other call: the schedule may not depend on what was multiplied before either
			reps := []string{""}
			switch k % 4 {
			case 1:
				reps = []string{"", "+repeated"}
			case 3:
				reps = []string{"", "other", "+after_another"}
			}
			for _, rep := range reps {
				vv, scc := v, sc+rep
				if rep == "other" {
					vv, scc = m.scalarOf("random"), "random"
				}
				m.class("scalar:" + scc)
				s := secp256k1.NewScalar()
				setScalar(s, vv)
				e := base.Copy()
				seq = seq[:0]
				field.VerifTraceHook, scalar.VerifTraceHook = hook, hook
				e.Multiply(s)
				field.VerifTraceHook, scalar.VerifTraceHook = nil, nil
				var sb strings.Builder
				jsonVal(&sb, []kv{{"op", "Sched"}, {"point", p + 1}, {"pclass", cls}, {"sclass", scc}, {"k", be32(vv)}, {"n", len(seq)}, {"seq", append([]int{}, seq...)}})
				m.w.WriteString(sb.String())
				m.w.WriteByte('\n')
				m.events++
				m.inShard++
			}
		}
	}
}

func init() {
	gens["C19"] = func(m *M, pick func(q, t int) int, shards int) {
		m.perFile = 1 // one point per trace file
		genC19(m, pick(4, 8), pick(22, 88))
	}
}
