package main

// C12 / C11 / C09(ii): the internal field layer and the exported map-to-curve functions, driven over a
// pool of field registers with explicit destination / source ids (aliasing is a choice of ids).
// This file is only part of the build for those properties (it imports the internal packages).

import (
	"math/big"
	"strings"

	"github.com/bytemare/secp256k1/internal/field"
	"github.com/bytemare/secp256k1/internal/scalar"
)

const nf = 4

type FM struct {
	*M
	F [nf]*field.Element
}

func (f *FM) obs() []kv {
	fs := make([]any, nf)
	eq := make([]int, nf)
	for i, e := range f.F {
		b := e.Bytes()
		fs[i] = b
		// the stored representation must be the canonical one: rebuild from the bytes and compare limbs
		var arr [32]byte
		copy(arr[:], b)
		ref, _ := field.New().FromBytesWithReduce(arr)
		eq[i] = clamp(e.Equals(ref))
	}
	return []kv{{"F", fs}, {"eq", eq}}
}

func (f *FM) emitF(op string, fields ...kv) {
	if f.w == nil {
		f.openShardF()
	}
	all := append([]kv{{"op", op}}, fields...)
	all = append(all, kv{"obs", f.obs()})
	var sb strings.Builder
	jsonVal(&sb, all)
	f.w.WriteString(sb.String())
	f.w.WriteByte('\n')
	f.events++
	f.inShard++
	f.classes["op:"+op]++
}

func (f *FM) openShardF() {
	f.openShard()
	// the generic header lacks the register count: write a second header line is not possible, so the
	// generic one carries nf as well (see core.go openShard)
}

func (f *FM) reset() {
	if f.w == nil || f.inShard >= f.perFile {
		f.openShardF()
	}
	for i := range f.F {
		f.F[i] = field.New()
	}
	f.hist++
	f.emitF("FReset")
}

// setInt writes the Montgomery form of v into register d directly (no parser involved).
func (f *FM) setInt(d int, v *big.Int) {
	mustBeBelow(v, bigP, "FSetInt")
	l := montLimbs(v, bigP)
	copy(f.F[d].E[:], l[:])
	f.emitF("FSetInt", kv{"d", d + 1}, kv{"v", be32(v)})
}

var fieldClasses = []string{"zero", "one", "two", "minus_one", "minus_two", "half_up", "half_down", "limb_pattern", "near_p",
	"small", "square", "nonsquare", "random", "random", "mont_window", "mont_window", "stored_limb_struct", "stored_near_const"}

func (f *FM) fieldOf(class string) *big.Int {
	switch class {
	case "zero":
		return big.NewInt(0)
	case "one":
		return big.NewInt(1)
	case "two":
		return big.NewInt(2)
	case "minus_one":
		return new(big.Int).Sub(bigP, one)
	case "minus_two":
		return new(big.Int).Sub(bigP, two)
	case "half_up":
		t := new(big.Int).Add(bigP, one)
		return t.Rsh(t, 1)
	case "half_down":
		t := new(big.Int).Sub(bigP, one)
		return t.Rsh(t, 1)
	case "limb_pattern":
		v := new(big.Int)
		pats := []uint64{0, 1, 1 << 63, ^uint64(0), 0xfffffffefffffc2f, 0xfffffffefffffc2e}
		for i := 0; i < 4; i++ {
			v.Lsh(v, 64).Or(v, new(big.Int).SetUint64(pats[f.rng.Intn(len(pats))]))
		}
		return v.Mod(v, bigP)
	case "near_p":
		return new(big.Int).Sub(bigP, big.NewInt(int64(1+f.rng.Intn(1200))))
	case "small":
		return big.NewInt(int64(f.rng.Intn(1 << 16)))
	case "mont_window": // the stored (Montgomery) limbs lie in a boundary window: next to 0, 2^255, p/2, p, word boundaries
		w, _ := f.window()
		return mulmod(new(big.Int).Mod(w, bigP), rInvP, bigP)
	case "stored_limb_struct":
		return mulmod(new(big.Int).Mod(f.limbStruct(), bigP), rInvP, bigP)
	case "stored_near_const":
		return mulmod(new(big.Int).Mod(f.nearMontConst(bigP), bigP), rInvP, bigP)
	case "square":
		v := f.randBig(bigP)
		return v.Mul(v, v).Mod(v, bigP)
	case "nonsquare":
		for {
			v := f.randBig(bigP)
			if v.Sign() != 0 && new(big.Int).ModSqrt(v, bigP) == nil {
				return v
			}
		}
	default:
		return f.randBig(bigP)
	}
}

func (f *FM) put(d int) {
	c := fieldClasses[f.rng.Intn(len(fieldClasses))]
	f.class("field:" + c)
	f.setInt(d, f.fieldOf(c))
}

// corpusField replays the field-package entries of the carry-coverage corpus through the internal field API.
func (f *FM) corpusField() {
	entries := loadCorpus("field")
	stored := func(v *big.Int) *big.Int { return mulmod(new(big.Int).Mod(v, bigP), rInvP, bigP) }
	n := 0
	arity := map[string]int{"Mul": 2, "Add": 2, "Sub": 2, "Square": 1, "Opp": 1, "FromMontgomery": 1, "ToMontgomery": 1, "Reduce": 1, "Selectznz": 2}
	for _, e := range entries {
		as := e.arrays()
		if w := e.wide(); e.Func == "Wide48" && w != nil {
			if n%20 == 0 {
				f.reset()
			}
			n++
			f.class("corpus:carry_sites")
			var arr [48]byte
			copy(arr[:], w)
			f.F[2].HashToFieldElement(arr)
			f.emitF("FWide", kv{"d", 3}, kv{"data", arr[:]})
			continue
		}
		if k, known := arity[e.Func]; !known || len(as) < k {
			continue
		}
		if e.Func != "Reduce" && e.Func != "ToMontgomery" {
			bad := false
			for _, a := range as {
				bad = bad || a.Cmp(bigP) >= 0
			}
			if bad {
				continue
			}
		}
		if n%20 == 0 {
			f.reset()
		}
		ok := func(k int) bool {
			if len(as) < k {
				return false
			}
			for _, a := range as[:k] {
				if a.Cmp(bigP) >= 0 {
					return false
				}
			}
			return true
		}
		ids := []kv{{"d", 3}, {"a", 1}, {"b", 2}}
		switch e.Func {
		case "Mul", "Add", "Sub":
			if !ok(2) {
				continue
			}
			f.setInt(0, stored(as[0]))
			f.setInt(1, stored(as[1]))
			switch e.Func {
			case "Mul":
				f.F[2].Multiply(f.F[0], f.F[1])
				f.emitF("FMul", ids...)
			case "Add":
				f.F[2].Add(f.F[0], f.F[1])
				f.emitF("FAdd", ids...)
			default:
				f.F[2].Subtract(f.F[0], f.F[1])
				f.emitF("FSub", ids...)
			}
		case "Square":
			if !ok(1) {
				continue
			}
			f.setInt(0, stored(as[0]))
			f.F[2].Square(f.F[0])
			f.emitF("FSqr", ids[:2]...)
		case "Opp":
			if !ok(1) {
				continue
			}
			f.setInt(0, stored(as[0]))
			f.F[2].Negate(f.F[0])
			f.emitF("FNeg", ids[:2]...)
		case "FromMontgomery":
			if !ok(1) {
				continue
			}
			f.setInt(0, stored(as[0]))
			f.emitF("FBytes", kv{"a", 1}, kv{"ret", f.F[0].Bytes()})
			f.emitF("FSgn0", kv{"a", 1}, kv{"ret", clamp(f.F[0].Sgn0())})
		case "ToMontgomery", "Reduce":
			if len(as) < 1 {
				continue
			}
			var arr [32]byte
			copy(arr[:], be32(as[0]))
			_, flag := f.F[2].FromBytesWithReduce(arr)
			f.emitF("FFromBytes", kv{"d", 3}, kv{"data", arr[:]}, kv{"ret", clamp(flag)})
		case "Selectznz":
			if !ok(2) {
				continue
			}
			c, _ := e.word("arg1")
			f.setInt(0, stored(as[0]))
			f.setInt(1, stored(as[1]))
			f.F[2].CMove(c&1, f.F[0], f.F[1])
			f.emitF("FCMove", append(ids, kv{"c", int(c & 1)})...)
		default:
			continue
		}
		n++
		f.class("corpus:carry_sites")
	}
}

func genC12(m *M, budget int) {
	f := &FM{M: m}
	f.corpusField()
	budget += f.events
	hist := 0
	for f.events < budget {
		f.reset()
		hist++
		// SYSTEMATIC (own random stream): every boundary-window kind in turn, as the STORED form of an operand and as the
		// stored form of the result of each field operation
		budget += f.withAux(func() {
			w, wc := f.windowKind(hist)
			f.class("window_walk:" + wc)
			a := mulmod(new(big.Int).Mod(w, bigP), rInvP, bigP)
			b := f.randBig(bigP)
			ids := []kv{{"d", 3}, {"a", 1}, {"b", 2}}
			run := func(x, y *big.Int, op int) {
				f.setInt(0, x)
				f.setInt(1, y)
				switch op {
				case 0:
					f.F[2].Multiply(f.F[0], f.F[1])
					f.emitF("FMul", ids...)
				case 1:
					f.F[2].Square(f.F[0])
					f.emitF("FSqr", ids[:2]...)
				case 2:
					f.F[2].Add(f.F[0], f.F[1])
					f.emitF("FAdd", ids...)
				case 3:
					f.F[2].Subtract(f.F[0], f.F[1])
					f.emitF("FSub", ids...)
				default:
					f.F[2].Negate(f.F[0])
					f.emitF("FNeg", ids[:2]...)
				}
			}
			for op := 0; op < 5; op++ {
				run(a, b, op)
			}
			f.emitF("FBytes", kv{"a", 1}, kv{"ret", f.F[0].Bytes()})
			f.emitF("FIsZero", kv{"a", 1}, kv{"ret", clamp(f.F[0].IsZero())})
			if b.Sign() != 0 { // results
				run(b, mulmod(a, new(big.Int).ModInverse(b, bigP), bigP), 0)
				run(b, new(big.Int).Mod(new(big.Int).Sub(a, b), bigP), 2)
				run(b, new(big.Int).Mod(new(big.Int).Sub(b, a), bigP), 3)
				run(new(big.Int).Mod(new(big.Int).Sub(bigP, a), bigP), b, 4)
				if r := new(big.Int).ModSqrt(a, bigP); r != nil {
					run(r, b, 1)
				}
			}
		})
		for i := 0; i < 12; i++ {
			f.put(0)
			f.put(1)
			if f.rng.Intn(4) == 0 { // operands related by sum / difference / product near 0 mod p
				a := new(big.Int).SetBytes(f.F[0].Bytes())
				b := new(big.Int).Sub(bigP, a)
				b.Add(b, big.NewInt(int64(f.rng.Intn(5)-2))).Mod(b, bigP)
				f.class("field:sum_near_p")
				f.setInt(1, b)
			}
			d, a, b := f.rng.Intn(nf), f.rng.Intn(2), f.rng.Intn(2)
			if f.rng.Intn(3) == 0 {
				d = a // destination aliases a source
			}
			if f.rng.Intn(4) == 0 {
				// operands chosen for their RESULT: the stored form of a*b, a^2, a+b or a-b is a boundary / structured value
				// (where the final subtraction and the last carries of that operation decide)
				t, _ := f.resultTarget(bigP)
				t = mulmod(t, rInvP, bigP) // the value whose stored form is that
				av := new(big.Int).SetBytes(f.F[0].Bytes())
				if av.Sign() != 0 {
					switch f.rng.Intn(4) {
					case 0: // product
						f.setInt(1, mulmod(t, new(big.Int).ModInverse(av, bigP), bigP))
						f.class("field:product_structured")
					case 1: // square
						if r := new(big.Int).ModSqrt(t, bigP); r != nil {
							if f.rng.Intn(2) == 0 && r.Sign() != 0 {
								r.Sub(bigP, r)
							}
							f.setInt(0, r)
							f.setInt(1, r)
							f.class("field:square_structured")
						}
					case 2: // sum
						f.setInt(1, new(big.Int).Mod(new(big.Int).Sub(t, av), bigP))
						f.class("field:sum_structured")
					default: // difference (either order)
						f.setInt(1, new(big.Int).Mod(new(big.Int).Sub(av, t), bigP))
						f.class("field:difference_structured")
					}
					a, b = 0, 1
					if f.rng.Intn(2) == 0 {
						a, b = 1, 0
					}
				}
			}
			ids := []kv{{"d", d + 1}, {"a", a + 1}, {"b", b + 1}}
			switch f.rng.Intn(18) {
			case 0:
				f.F[d].Add(f.F[a], f.F[b])
				f.emitF("FAdd", ids...)
			case 1:
				f.F[d].Subtract(f.F[a], f.F[b])
				f.emitF("FSub", ids...)
			case 2, 3:
				f.F[d].Multiply(f.F[a], f.F[b])
				f.emitF("FMul", ids...)
			case 4:
				f.F[d].Square(f.F[a])
				f.emitF("FSqr", ids[:2]...)
			case 5:
				f.F[d].Negate(f.F[a])
				f.emitF("FNeg", ids[:2]...)
			case 6:
				f.F[d].Invert(*f.F[a])
				f.emitF("FInvert", ids[:2]...)
			case 7, 8:
				if f.F[b].IsZero() == 1 {
					f.setInt(b, big.NewInt(int64(1+f.rng.Intn(9))))
				}
				if f.rng.Intn(3) == 0 { // numerator with boundary / structured Montgomery limbs (either square-ness)
					w, wc := f.resultTarget(bigP)
					f.class("sqrt_ratio:u_" + wc)
					uv := mulmod(new(big.Int).Mod(w, bigP), rInvP, bigP)
					if a == b && uv.Sign() == 0 {
						uv.SetInt64(1) // u and v are the same register: v = 0 is outside the statement
					}
					f.setInt(a, uv)
				} else if f.rng.Intn(2) == 0 { // make u/v a square on purpose half of the time: u = v * t^2
					t := f.randBig(bigP)
					vv := new(big.Int).SetBytes(f.F[b].Bytes())
					u := mulmod(vv, mulmod(t, t, bigP), bigP)
					f.class("sqrt_ratio:square")
					f.setInt(a, u)
					if a == b {
						f.class("sqrt_ratio:u=v")
					}
				}
				_, flag := f.F[d].SqrtRatio(f.F[a], f.F[b])
				f.emitF("FSqrtRatio", append(ids, kv{"ret", clamp(flag)})...)
			case 9:
				c := uint64(f.rng.Intn(2))
				f.F[d].CMove(c, f.F[a], f.F[b])
				f.emitF("FCMove", append(ids, kv{"c", int(c)})...)
			case 10:
				f.F[d].Set(f.F[a])
				f.emitF("FSet", ids[:2]...)
			case 11:
				var data []byte
				switch f.rng.Intn(12) {
				case 7: // every limb independently p's limb, p's limb +-1, 0 or all ones
					data = be32(f.limbwiseNeighbour(bigP))
					f.class("parse:limbwise_neighbour_of_p")
				case 8, 9: // boundary windows (incl. values that share p's HIGH limbs and differ in the low one)
					w, wc := f.window()
					data = be32(new(big.Int).Mod(w, bigR))
					f.class("parse:" + wc)
				case 10:
					data = be32(f.highLimbsOfP())
					f.class("parse:high_limbs_of_p")
				case 11:
					data = be32(f.limbStruct())
					f.class("parse:limb_struct")
				case 0:
					data = be32(bigP)
				case 1:
					data = be32(new(big.Int).Sub(bigP, one))
				case 2:
					data = be32(new(big.Int).Add(bigP, big.NewInt(int64(f.rng.Intn(1000)))))
				case 3:
					data = be32(new(big.Int).Sub(bigR, one))
				case 4: // p with one 64-bit limb altered
					v := new(big.Int).Set(bigP)
					dd := new(big.Int).Lsh(one, uint(64*f.rng.Intn(4)))
					if f.rng.Intn(2) == 0 {
						v.Sub(v, dd)
					} else {
						v.Add(v, dd)
					}
					if v.Cmp(bigR) >= 0 {
						v.Sub(bigR, two)
					}
					data = be32(v)
				default:
					data = f.randBytes(32)
				}
				var arr [32]byte
				copy(arr[:], data)
				_, flag := f.F[d].FromBytesWithReduce(arr)
				f.emitF("FFromBytes", kv{"d", d + 1}, kv{"data", data}, kv{"ret", clamp(flag)})
			case 12:
				var arr [48]byte
				copy(arr[:], f.wide48())
				f.F[d].HashToFieldElement(arr)
				f.emitF("FWide", kv{"d", d + 1}, kv{"data", arr[:]})
			case 13:
				f.emitF("FBytes", kv{"a", a + 1}, kv{"ret", f.F[a].Bytes()})
			case 14:
				f.emitF("FSgn0", kv{"a", a + 1}, kv{"ret", clamp(f.F[a].Sgn0())})
			case 15:
				f.emitF("FIsZero", kv{"a", a + 1}, kv{"ret", clamp(f.F[a].IsZero())})
			case 16:
				if f.rng.Intn(2) == 0 {
					f.F[2].Set(f.F[a])
					f.emitF("FSet", kv{"d", 3}, kv{"a", a + 1})
					f.emitF("FEquals", kv{"a", a + 1}, kv{"b", 3}, kv{"ret", clamp(f.F[a].Equals(f.F[2]))})
				} else {
					if a != b && f.rng.Intn(2) == 0 { // operands whose STORED forms differ in one limb / one bit only
						am := mulmod(new(big.Int).SetBytes(f.F[a].Bytes()), bigR, bigP)
						var dm *big.Int
						switch f.rng.Intn(3) {
						case 0:
							dm = new(big.Int).Lsh(new(big.Int).SetUint64(f.rng.Uint64()|1), uint(64*f.rng.Intn(4)))
						case 1:
							dm = new(big.Int).Lsh(one, uint(f.rng.Intn(256)))
						default: // related limb differences (equal in two limbs, ...)
							dm = f.limbStruct()
						}
						am.Xor(am, dm)
						if am.Cmp(bigP) < 0 {
							f.class("equals:one_limb_apart")
							f.setInt(b, mulmod(am, rInvP, bigP))
						}
					}
					f.emitF("FEquals", kv{"a", a + 1}, kv{"b", b + 1}, kv{"ret", clamp(f.F[a].Equals(f.F[b]))})
				}
			case 17:
				f.F[d] = field.New()
				f.emitF("FNew", kv{"d", d + 1})
				f.F[a].One()
				f.emitF("FOne", kv{"d", a + 1})
			}
		}
	}
}

// wide48 returns a 48-byte string from the classes of DESIGN C09 (ii).
func (f *FM) wide48() []byte {
	out := make([]byte, 48)
	switch f.rng.Intn(13) {
	case 11, 12: // after the first fold (which carries out of 2^256) the wrapped sum has a RUN of all-ones limbs above a low
		// limb within c of 2^64: the second fold's carry must ripple through every one of them
		mod := []*big.Int{bigP, bigN}[f.rng.Intn(2)]
		c := new(big.Int).Sub(bigR, mod)
		run := 1 + f.rng.Intn(3)
		t := new(big.Int)
		if run < 3 {
			t = f.randBig(new(big.Int).Lsh(one, uint(20+f.rng.Intn(12)))) // what is above the run (the wrapped sum is < 2^161 for p)
			if mod == bigN {
				t = f.randBig(new(big.Int).Lsh(one, uint(64*(3-run))))
			}
		}
		for i := 0; i < run; i++ {
			t.Lsh(t, 64).Or(t, new(big.Int).SetUint64(^uint64(0)))
		}
		lowc := new(big.Int).And(c, new(big.Int).SetUint64(^uint64(0)))
		low := new(big.Int).Sub(new(big.Int).Lsh(one, 64), new(big.Int).Add(big.NewInt(1), f.randBig(lowc)))
		t.Lsh(t, 64).Or(t, low)
		hi := f.randBig(new(big.Int).Lsh(one, 128))
		hi.SetBit(hi, 127, 1)
		lo := new(big.Int).Add(bigR, t)
		lo.Sub(lo, new(big.Int).Mul(hi, c)) // lo + hi c = 2^256 + t
		if lo.Sign() >= 0 && lo.Cmp(bigR) < 0 {
			v := new(big.Int).Lsh(hi, 256)
			v.Add(v, lo)
			v.FillBytes(out)
		} else {
			f.rng.Read(out)
		}
	case 8, 9, 10: // hi * 2^256 + lo whose first fold  lo + hi * (2^256 mod m)  lands next to 2^256 (a carry at the edge)
		mod := []*big.Int{bigP, bigN}[f.rng.Intn(2)]
		c := new(big.Int).Sub(bigR, mod)
		hi := f.randBig(new(big.Int).Lsh(one, 128))
		if f.rng.Intn(3) == 0 {
			hi = new(big.Int).Sub(new(big.Int).Lsh(one, 128), big.NewInt(int64(1+f.rng.Intn(5))))
		}
		var delta *big.Int
		switch f.rng.Intn(3) {
		case 0:
			delta = big.NewInt(int64(f.rng.Intn(1 << 20)))
		case 1:
			delta = f.randBig(c)
		default:
			delta = f.randBig(new(big.Int).Lsh(c, 1))
		}
		if f.rng.Intn(2) == 0 {
			delta.Neg(delta) // just above 2^256 instead of just below
		}
		lo := new(big.Int).Mul(hi, c)
		lo.Add(lo, delta).Neg(lo).Mod(lo, bigR) // lo = -(delta + hi c) mod 2^256
		v := new(big.Int).Lsh(hi, 256)
		v.Add(v, lo)
		v.FillBytes(out)
	case 0:
		for i := range out {
			out[i] = 0xff
		}
	case 1: // a + b 2^192 with a, b in {0, 1, 2^192-1}
		pick := func() *big.Int {
			return []*big.Int{big.NewInt(0), big.NewInt(1), new(big.Int).Sub(new(big.Int).Lsh(one, 192), one)}[f.rng.Intn(3)]
		}
		v := new(big.Int).Lsh(pick(), 192)
		v.Add(v, pick())
		v.FillBytes(out)
	case 2: // lands within +-2 of a multiple of the modulus (both moduli are exercised by their own events)
		mod := []*big.Int{bigP, bigN}[f.rng.Intn(2)]
		k := f.randBig(new(big.Int).Lsh(one, 120))
		v := new(big.Int).Mul(k, mod)
		v.Add(v, big.NewInt(int64(f.rng.Intn(5)-2)))
		if v.Sign() < 0 {
			v.SetInt64(0)
		}
		v.FillBytes(out)
	case 3:
		copy(out[16:], be32(bigP))
	case 4:
		copy(out[16:], be32(bigN))
	default:
		f.rng.Read(out)
	}
	return out
}

// genC09w: the scalar field's wide reduction on chosen 48-byte strings (DESIGN C09 (ii)).
func genC09w(m *M, budget int) {
	f := &FM{M: m}
	// 48-byte strings solved for the carry sites of the conversion of b and of its multiplication by the constant 2^192
	nw := 0
	for _, e := range loadCorpus("scalar") {
		w := e.wide()
		if e.Func != "Wide48" || w == nil {
			continue
		}
		if nw%30 == 0 {
			f.reset()
		}
		nw++
		f.class("corpus:carry_sites")
		var arr [48]byte
		copy(arr[:], w)
		var out scalar.MontgomeryDomainFieldElement
		scalar.HashToFieldElement(&out, arr)
		var nm scalar.NonMontgomeryDomainFieldElement
		scalar.FromMontgomery(&nm, &out)
		f.emitF("NWide", kv{"data", arr[:]}, kv{"ret", scalar.NonMontgomeryToBytes(&nm)})
	}
	budget += f.events
	for f.events < budget {
		f.reset()
		for j := 0; j < 30; j++ {
			var arr [48]byte
			copy(arr[:], f.wide48())
			var out scalar.MontgomeryDomainFieldElement
			scalar.HashToFieldElement(&out, arr)
			// read the reduced value back through the internal package's own conversion (no public Scalar involved)
			var nm scalar.NonMontgomeryDomainFieldElement
			scalar.FromMontgomery(&nm, &out)
			f.emitF("NWide", kv{"data", arr[:]}, kv{"ret", scalar.NonMontgomeryToBytes(&nm)})
		}
	}
}

// genC11f: the field primitives the map is composed of (zero / equality tests, sqrt_ratio, inversion, conditional
// move) on boundary and structured operands -- the map is total and exact on EVERY field element only if they are.
func genC11f(m *M, budget int) {
	f := &FM{M: m}
	for f.events < budget {
		f.reset()
		for i := 0; i < 14; i++ {
			w, wc := f.resultTarget(bigP) // two-representation range / boundary window / structured limbs
			f.class("operand:" + wc)
			f.setInt(0, mulmod(new(big.Int).Mod(w, bigP), rInvP, bigP))
			f.put(1)
			if f.F[1].IsZero() == 1 {
				f.setInt(1, big.NewInt(3))
			}
			switch i % 5 {
			case 0:
				f.emitF("FIsZero", kv{"a", 1}, kv{"ret", clamp(f.F[0].IsZero())})
			case 1:
				f.emitF("FEquals", kv{"a", 1}, kv{"b", 2}, kv{"ret", clamp(f.F[0].Equals(f.F[1]))})
				f.F[2].Set(f.F[0])
				f.emitF("FSet", kv{"d", 3}, kv{"a", 1})
				f.emitF("FEquals", kv{"a", 1}, kv{"b", 3}, kv{"ret", clamp(f.F[0].Equals(f.F[2]))})
			case 2:
				_, flag := f.F[2].SqrtRatio(f.F[0], f.F[1])
				f.emitF("FSqrtRatio", kv{"d", 3}, kv{"a", 1}, kv{"b", 2}, kv{"ret", clamp(flag)})
			case 3:
				f.F[2].Invert(*f.F[0])
				f.emitF("FInvert", kv{"d", 3}, kv{"a", 1})
			default:
				f.F[2].Negate(f.F[0])
				f.emitF("FNeg", kv{"d", 3}, kv{"a", 1})
				f.emitF("FSgn0", kv{"a", 3}, kv{"ret", clamp(f.F[2].Sgn0())})
			}
		}
	}
}

func init() {
	gens["C11f"] = func(m *M, pick func(q, t int) int, shards int) {
		total := pick(1500, 200000)
		perFile(m, total, shards)
		genC11f(m, total)
	}
	simple := func(g func(*M, int), q, t int) gen {
		return func(m *M, pick func(q, t int) int, shards int) {
			total := pick(q, t)
			perFile(m, total, shards)
			g(m, total)
		}
	}
	gens["C12"] = simple(genC12, 20000, 1000000)
	gens["C09w"] = simple(genC09w, 1500, 300000)
}
