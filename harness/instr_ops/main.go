// Data-flow instrumenter (the "lift", DESIGN 2.5): copies the .go files of internal/field, inserting at the entry
// of every method of *Element whose parameters are all *Element (Add, Subtract, Multiply, Square, Negate, Set,
// Equals, One, ...) a call  verifOp(<id>, receiver, params...)  that reports the ADDRESSES of destination and
// sources.  One recorded execution of a straight-line function (the complete addition formulas) is then the
// function itself, as a three-address program over registers, which TLC interprets over every input of a toy
// field.  Methods with other parameter kinds report  verifOp(<id>)  only, which marks the recording as not liftable.
//
//	go run main.go <srcdir> <outdir>   -> prints "<id> <method> <nptr>" per instrumented method
package main

import (
	"fmt"
	"go/ast"
	"go/parser"
	"go/printer"
	"go/token"
	"os"
	"path/filepath"
	"strconv"
	"strings"
)

func isElemPtr(e ast.Expr) bool {
	st, ok := e.(*ast.StarExpr)
	if !ok {
		return false
	}
	id, ok := st.X.(*ast.Ident)
	return ok && id.Name == "Element"
}

func main() {
	if len(os.Args) != 3 {
		fmt.Fprintln(os.Stderr, "usage: instr_ops <srcdir> <outdir>")
		os.Exit(2)
	}
	src, out := os.Args[1], os.Args[2]
	files, _ := filepath.Glob(filepath.Join(src, "*.go"))
	id := 1
	pkgName := ""
	for _, f := range files {
		if strings.HasSuffix(f, "_test.go") {
			continue
		}
		fset := token.NewFileSet()
		af, err := parser.ParseFile(fset, f, nil, parser.ParseComments)
		if err != nil {
			fmt.Fprintln(os.Stderr, err)
			os.Exit(1)
		}
		pkgName = af.Name.Name
		touched := false
		for _, d := range af.Decls {
			fd, ok := d.(*ast.FuncDecl)
			if !ok || fd.Body == nil || fd.Recv == nil || len(fd.Recv.List) != 1 || !isElemPtr(fd.Recv.List[0].Type) {
				continue
			}
			if len(fd.Recv.List[0].Names) != 1 {
				continue
			}
			args := []ast.Expr{&ast.BasicLit{Kind: token.INT, Value: strconv.Itoa(id)}}
			allPtr := true
			var names []string
			names = append(names, fd.Recv.List[0].Names[0].Name)
			for _, p := range fd.Type.Params.List {
				if !isElemPtr(p.Type) {
					allPtr = false
					break
				}
				for _, n := range p.Names {
					names = append(names, n.Name)
				}
			}
			nptr := 0
			if allPtr {
				for _, n := range names {
					args = append(args, &ast.CallExpr{Fun: &ast.SelectorExpr{X: ast.NewIdent("unsafe"), Sel: ast.NewIdent("Pointer")}, Args: []ast.Expr{ast.NewIdent(n)}})
				}
				nptr = len(names)
				touched = true
			}
			call := &ast.ExprStmt{X: &ast.CallExpr{Fun: ast.NewIdent("verifOp"), Args: args}}
			fd.Body.List = append([]ast.Stmt{call}, fd.Body.List...)
			fmt.Printf("%d %s %d\n", id, fd.Name.Name, nptr)
			id++
		}
		if touched {
			// make sure "unsafe" is imported
			has := false
			for _, im := range af.Imports {
				if im.Path.Value == `"unsafe"` {
					has = true
				}
			}
			if !has {
				imp := &ast.GenDecl{Tok: token.IMPORT, Specs: []ast.Spec{&ast.ImportSpec{Path: &ast.BasicLit{Kind: token.STRING, Value: `"unsafe"`}}}}
				af.Decls = append([]ast.Decl{imp}, af.Decls...)
			}
		}
		of, err := os.Create(filepath.Join(out, filepath.Base(f)))
		if err != nil {
			fmt.Fprintln(os.Stderr, err)
			os.Exit(1)
		}
		if err := printer.Fprint(of, fset, af); err != nil {
			fmt.Fprintln(os.Stderr, err)
			os.Exit(1)
		}
		of.Close()
	}
	hook := "package " + pkgName + `

import "unsafe"

// VerifOpHook, when set, receives the id of every instrumented method and the addresses of its receiver and
// *Element parameters.
var VerifOpHook func(id int, ptrs ...unsafe.Pointer)

func verifOp(id int, ptrs ...unsafe.Pointer) {
	if h := VerifOpHook; h != nil {
		h(id, ptrs...)
	}
}
`
	if err := os.WriteFile(filepath.Join(out, "zz_verif_ops.go"), []byte(hook), 0o644); err != nil {
		fmt.Fprintln(os.Stderr, err)
		os.Exit(1)
	}
}
