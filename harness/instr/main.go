// Instrumenter for property C19: copies the .go files of a package directory, inserting a call
// verifTrace(<id>) as the first statement of every function, and adds zz_verif_trace.go defining the
// hook.  The copies are substituted for the originals with `go build -overlay`; /repo is not touched.
//
//	go run main.go <srcdir> <outdir> <firstid>   -> prints one line "<id> <pkg>.<func>" per function
package main

import (
	"fmt"
	"go/ast"
	"go/parser"
	"go/printer"
	"go/token"
	"os"
	"path/filepath"
	"strconv"
	"strings"
)

func main() {
	if len(os.Args) != 4 {
		fmt.Fprintln(os.Stderr, "usage: instr <srcdir> <outdir> <firstid>")
		os.Exit(2)
	}
	src, out := os.Args[1], os.Args[2]
	id, _ := strconv.Atoi(os.Args[3])
	files, _ := filepath.Glob(filepath.Join(src, "*.go"))
	pkgName := ""
	for _, f := range files {
		if strings.HasSuffix(f, "_test.go") {
			continue
		}
		fset := token.NewFileSet()
		af, err := parser.ParseFile(fset, f, nil, parser.ParseComments)
		if err != nil {
			fmt.Fprintln(os.Stderr, err)
			os.Exit(1)
		}
		pkgName = af.Name.Name
		for _, d := range af.Decls {
			fd, ok := d.(*ast.FuncDecl)
			if !ok || fd.Body == nil {
				continue
			}
			name := fd.Name.Name
			if fd.Recv != nil && len(fd.Recv.List) > 0 {
				var sb strings.Builder
				printer.Fprint(&sb, fset, fd.Recv.List[0].Type)
				name = "(" + sb.String() + ")." + name
			}
			call := &ast.ExprStmt{X: &ast.CallExpr{Fun: ast.NewIdent("verifTrace"),
				Args: []ast.Expr{&ast.BasicLit{Kind: token.INT, Value: strconv.Itoa(id)}}}}
			fd.Body.List = append([]ast.Stmt{call}, fd.Body.List...)
			fmt.Printf("%d %s.%s\n", id, pkgName, name)
			id++
		}
		of, err := os.Create(filepath.Join(out, filepath.Base(f)))
		if err != nil {
			fmt.Fprintln(os.Stderr, err)
			os.Exit(1)
		}
		if err := printer.Fprint(of, fset, af); err != nil {
			fmt.Fprintln(os.Stderr, err)
			os.Exit(1)
		}
		of.Close()
	}
	hook := "package " + pkgName + `

// VerifTraceHook, when set, receives the id of every function of this package as it is entered.
var VerifTraceHook func(int)

func verifTrace(id int) {
	if h := VerifTraceHook; h != nil {
		h(id)
	}
}
`
	if err := os.WriteFile(filepath.Join(out, "zz_verif_trace.go"), []byte(hook), 0o644); err != nil {
		fmt.Fprintln(os.Stderr, err)
		os.Exit(1)
	}
}
