//go:build verif

// Injected like zz_verif_access.go: the stored (Montgomery-form) limbs of a Scalar.
package secp256k1

// VerifScalarAccessor reports that the stored limbs of a Scalar can be written in this build.
const VerifScalarAccessor = true

// VerifScalarLimbs returns a pointer to the stored limbs of s.
func VerifScalarLimbs(s *Scalar) *[4]uint64 { return (*[4]uint64)(&s.S) }
