//go:build verif

// Fallback used when zz_verif_access.go no longer compiles against the tree (the element
// representation was refactored): the harness then drives the public API only.
package secp256k1

// VerifAccessor reports that raw coordinate access is NOT available in this build.
const VerifAccessor = false

// VerifLimbs is unavailable in this build.
func VerifLimbs(e *Element) (x, y, z *[4]uint64) { return nil, nil, nil }
