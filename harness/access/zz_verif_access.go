//go:build verif

// Injected into package secp256k1 at build time with `go build -overlay` by /verif/bin/check.
// Never part of /repo.  Gives the conformance harness read/write access to the raw projective
// coordinates of an Element (Montgomery-form limbs), which the public API does not offer and which
// the properties quantify over ("every projective representation").
package secp256k1

// VerifAccessor reports that raw coordinate access is available in this build.
const VerifAccessor = true

// VerifLimbs returns pointers to the Montgomery-form limbs of the three projective coordinates.
func VerifLimbs(e *Element) (x, y, z *[4]uint64) {
	return (*[4]uint64)(&e.x.E), (*[4]uint64)(&e.y.E), (*[4]uint64)(&e.z.E)
}
