//go:build verif

// Fallback used when zz_verif_scalar.go no longer compiles against the tree (the Scalar representation was
// refactored): scalars are then set through Decode.
package secp256k1

// VerifScalarAccessor reports that the stored limbs of a Scalar can NOT be written in this build.
const VerifScalarAccessor = false

// VerifScalarLimbs is unavailable in this build.
func VerifScalarLimbs(s *Scalar) *[4]uint64 { return nil }
