package main

// The "lift" (DESIGN 2.5): one execution of a straight-line function of the real code, recorded at the level of
// field-method calls with the ADDRESSES of destination and sources, is the function itself as a three-address
// program.  This file records Add (distinct and aliased operands), Subtract and Double that way; TLC then
// interprets the recorded programs over EVERY pair of projective representations of a toy curve (MC_Lift).
// Built only together with the data-flow-instrumented copy of internal/field.

import (
	"fmt"
	"strings"
	"unsafe"

	"github.com/bytemare/secp256k1"
	"github.com/bytemare/secp256k1/internal/field"
)

type liftRec struct {
	names    map[int]string
	nptr     map[int]int
	regs     map[uintptr]int
	next     int
	consts   [][2]any // reg, value bytes
	code     [][]any
	liftable bool
	why      string
}

func (l *liftRec) src(p unsafe.Pointer) int {
	a := uintptr(p)
	if r, ok := l.regs[a]; ok {
		return r
	}
	// first read of a location nobody wrote and that is not an input: a constant (b3, one, ...)
	h := field.VerifOpHook
	field.VerifOpHook = nil
	val := (*field.Element)(p).Bytes()
	field.VerifOpHook = h
	l.next++
	l.regs[a] = l.next
	l.consts = append(l.consts, [2]any{l.next, val})
	return l.next
}

func (l *liftRec) dst(p unsafe.Pointer) int {
	l.next++
	l.regs[uintptr(p)] = l.next
	return l.next
}

func (l *liftRec) hook(id int, ptrs ...unsafe.Pointer) {
	name := l.names[id]
	switch name {
	case "Multiply", "Add", "Subtract":
		if len(ptrs) != 3 {
			l.liftable, l.why = false, name+" without three operands"
			return
		}
		a, b := l.src(ptrs[1]), l.src(ptrs[2])
		l.code = append(l.code, []any{strings.ToLower(name[:3]), l.dst(ptrs[0]), a, b})
	case "Square", "Negate", "Set":
		if len(ptrs) != 2 {
			l.liftable, l.why = false, name+" without two operands"
			return
		}
		a := l.src(ptrs[1])
		l.code = append(l.code, []any{strings.ToLower(name[:3]), l.dst(ptrs[0]), a, a})
	case "One":
		l.code = append(l.code, []any{"one", l.dst(ptrs[0]), 0, 0})
	default:
		l.liftable, l.why = false, "calls "+name+", which the interpreter does not model"
	}
}

// recordOne runs f on operands u (and v) and returns the recorded program as a JSON-able record.
func recordOne(m *M, names map[int]string, progName string, nin int, u, v *secp256k1.Element, f func()) []kv {
	l := &liftRec{names: names, regs: map[uintptr]int{}, liftable: true}
	ux, uy, uz := secp256k1.VerifLimbs(u)
	l.regs[uintptr(unsafe.Pointer(ux))], l.regs[uintptr(unsafe.Pointer(uy))], l.regs[uintptr(unsafe.Pointer(uz))] = 1, 2, 3
	l.next = 3
	if nin == 6 {
		vx, vy, vz := secp256k1.VerifLimbs(v)
		l.regs[uintptr(unsafe.Pointer(vx))], l.regs[uintptr(unsafe.Pointer(vy))], l.regs[uintptr(unsafe.Pointer(vz))] = 4, 5, 6
		l.next = 6
	}
	field.VerifOpHook = l.hook
	f()
	field.VerifOpHook = nil
	out := []int{l.regs[uintptr(unsafe.Pointer(ux))], l.regs[uintptr(unsafe.Pointer(uy))], l.regs[uintptr(unsafe.Pointer(uz))]}
	cs := make([]any, len(l.consts))
	for i, c := range l.consts {
		cs[i] = []any{c[0], c[1]}
	}
	code := make([]any, len(l.code))
	for i, c := range l.code {
		code[i] = c
	}
	return []kv{{"op", "Prog"}, {"name", progName}, {"liftable", l.liftable}, {"why", l.why}, {"nin", nin}, {"nregs", l.next},
		{"consts", cs}, {"code", code}, {"out", out}}
}

func progKey(p []kv) string {
	var sb strings.Builder
	jsonVal(&sb, p)
	return sb.String()
}

func genLift(m *M, names map[int]string) {
	if !secp256k1.VerifAccessor {
		m.emitRaw("Prog", kv{"name", "none"}, kv{"liftable", false}, kv{"why", "the raw-coordinate accessor does not build against this tree"})
		return
	}
	mk := func() *secp256k1.Element {
		x, y := m.randPoint()
		e := secp256k1.NewElement()
		l := m.lambda("random")
		xl, yl, zl := secp256k1.VerifLimbs(e)
		*xl, *yl, *zl = montLimbs(mulmod(x, l, bigP), bigP), montLimbs(mulmod(y, l, bigP), bigP), montLimbs(l, bigP)
		return e
	}
	type target struct {
		name string
		nin  int
		run  func(u, v *secp256k1.Element) func()
	}
	targets := []target{
		{"Add", 6, func(u, v *secp256k1.Element) func() { return func() { u.Add(v) } }},
		{"AddAliased", 3, func(u, v *secp256k1.Element) func() { return func() { u.Add(u) } }},
		{"Subtract", 6, func(u, v *secp256k1.Element) func() { return func() { u.Subtract(v) } }},
		{"SubtractAliased", 3, func(u, v *secp256k1.Element) func() { return func() { u.Subtract(u) } }},
		{"Double", 3, func(u, v *secp256k1.Element) func() { return func() { u.Double() } }},
	}
	for _, t := range targets {
		// record on several operand kinds: a straight-line function gives the same program every time
		var first []kv
		same := true
		for k := 0; k < 4; k++ {
			u, v := mk(), mk()
			switch k {
			case 1:
				v.Set(u) // P = Q
			case 2:
				u.Identity()
			case 3:
				v.Set(u)
				v.Negate()
			}
			p := recordOne(m, names, t.name, t.nin, u, v, t.run(u, v))
			// constants are recorded by value, so two recordings of one program are textually equal
			if first == nil {
				first = p
			} else if progKey(first) != progKey(p) {
				same = false
			}
		}
		if !same {
			for i := range first {
				if first[i].k == "liftable" {
					first[i].v = false
				}
				if first[i].k == "why" {
					first[i].v = "the recorded program depends on the operands (not straight-line)"
				}
			}
		}
		m.emitRaw("Prog", first[1:]...)
	}
}

func init() {
	gens["LIFT"] = func(m *M, pick func(q, t int) int, shards int) {
		names := map[int]string{}
		for _, ln := range strings.Split(liftNames, ";") {
			var id, n int
			var name string
			if c, _ := fmt.Sscanf(ln, "%d %s %d", &id, &name, &n); c == 3 {
				names[id] = name
			}
		}
		genLift(m, names)
	}
}
