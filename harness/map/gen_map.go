package main

// C11: the exported map-to-curve functions SSWU and IsogenySecp256k13iso.  This file depends on nothing of
// internal/field but the TYPE field.Element being a struct around four 64-bit Montgomery limbs: inputs are written
// and outputs read through unsafe pointers and converted with math/big, so renaming the methods or the field of
// that type does not stop the check (the field-primitive pass C11f, which needs the method names, is optional).

import (
	"math/big"
	"strings"
	"unsafe"

	"github.com/bytemare/secp256k1"
	"github.com/bytemare/secp256k1/internal/field"
)

type MM struct {
	*M
	F [4]*field.Element
}

func limbsOf(e *field.Element) *[4]uint64 { return (*[4]uint64)(unsafe.Pointer(e)) }

func canonOf(e *field.Element) *big.Int { return mulmod(limbsToBig(*limbsOf(e)), rInvP, bigP) }

func (f *MM) obs() []kv {
	fs := make([]any, len(f.F))
	eq := make([]int, len(f.F))
	for i, e := range f.F {
		fs[i] = be32(canonOf(e))
		eq[i] = 1
		if limbsToBig(*limbsOf(e)).Cmp(bigP) >= 0 {
			eq[i] = 0 // stored limbs not canonical
		}
	}
	return []kv{{"F", fs}, {"eq", eq}}
}

func (f *MM) emitF(op string, fields ...kv) {
	if f.w == nil {
		f.openShard()
	}
	all := append([]kv{{"op", op}}, fields...)
	all = append(all, kv{"obs", f.obs()})
	var sb strings.Builder
	jsonVal(&sb, all)
	f.w.WriteString(sb.String())
	f.w.WriteByte('\n')
	f.events++
	f.inShard++
	f.classes["op:"+op]++
}

func (f *MM) reset() {
	if f.w == nil || f.inShard >= f.perFile {
		f.openShard()
	}
	for i := range f.F {
		f.F[i] = new(field.Element)
	}
	f.hist++
	f.emitF("FReset")
}

func (f *MM) setInt(d int, v *big.Int) {
	*limbsOf(f.F[d]) = montLimbs(v, bigP)
	f.emitF("FSetInt", kv{"d", d + 1}, kv{"v", be32(v)})
}

// ---------------------------------------------------------------- C11

func readAffine(e *secp256k1.Element) (x, y []byte) {
	if secp256k1.VerifAccessor {
		xl, yl, _ := secp256k1.VerifLimbs(e)
		rinv := new(big.Int).ModInverse(bigR, bigP)
		return be32(mulmod(limbsToBig(*xl), rinv, bigP)), be32(mulmod(limbsToBig(*yl), rinv, bigP))
	}
	u := e.EncodeUncompressed() // Z = 1 after SSWU: 04 || x || y
	if len(u) != 65 {
		return make([]byte, 32), make([]byte, 32)
	}
	return u[1:33], u[33:]
}

func (f *MM) resultObs(e *secp256k1.Element) []kv {
	enc := e.Encode()
	w, sq := f.witnessFor(enc)
	return []kv{{"enc", enc}, {"id", e.IsIdentity()}, {"y", w}, {"sq", sq}}
}

func genC11(m *M, budget int) {
	f := &MM{M: m}
	// the three exceptional u: 0 and +-sqrt(-1/Z)
	negInvZ := new(big.Int).ModInverse(sswuZ, bigP)
	negInvZ.Neg(negInvZ).Mod(negInvZ, bigP)
	exc := new(big.Int).ModSqrt(negInvZ, bigP)
	i := 0
	for f.events < budget {
		f.reset()
		for j := 0; j < 10; j++ {
			var u *big.Int
			cls := ""
			switch i % 12 {
			case 0:
				u, cls = big.NewInt(0), "u=0(exceptional)"
			case 1:
				if exc != nil {
					u, cls = exc, "u=+sqrt(-1/Z)(exceptional)"
				} else {
					u, cls = big.NewInt(1), "one"
				}
			case 2:
				if exc != nil {
					u, cls = new(big.Int).Sub(bigP, exc), "u=-sqrt(-1/Z)(exceptional)"
				} else {
					u, cls = big.NewInt(2), "two"
				}
			case 3:
				u, cls = big.NewInt(1), "one"
			case 4:
				u, cls = new(big.Int).Sub(bigP, one), "minus_one"
			case 5:
				u, cls = big.NewInt(int64(2+f.rng.Intn(1000))), "small"
			default:
				u, cls = f.randBig(bigP), "random"
			}
			if i%12 >= 9 {
				// u for which the intermediate  tv2 = Z^2 u^4 + Z u^2  has boundary / structured Montgomery limbs (the
				// exceptional-case test looks at exactly this value): solve  Z^2 v^2 + Z v - w = 0  for v = u^2
				if uu := f.solveTv2(); uu != nil {
					u, cls = uu, "tv2_structured"
				}
			}
			i++
			_, _, first := sswuRef(u)
			f.class("u:" + cls)
			f.class(map[bool]string{true: "gx1:square", false: "gx1:nonsquare"}[first])
			f.class(map[uint]string{0: "sgn0(u)=0", 1: "sgn0(u)=1"}[u.Bit(0)])
			f.setInt(0, u)
			q := secp256k1.SSWU(f.F[0])
			x, y := readAffine(q)
			f.emitF("MSswu", kv{"a", 1}, kv{"x", x}, kv{"y", y})
			r := secp256k1.IsogenySecp256k13iso(q)
			f.emitF("MIso", kv{"x", x}, kv{"y", y}, kv{"res", f.resultObs(r)})
			if secp256k1.VerifAccessor && j%5 == 4 {
				if sx, sy := f.structuredXDenPoint(); sx != nil {
					e := secp256k1.NewElement()
					xl, yl, zl := secp256k1.VerifLimbs(e)
					*xl, *yl, *zl = montLimbs(sx, bigP), montLimbs(sy, bigP), montLimbs(one, bigP)
					r2 := secp256k1.IsogenySecp256k13iso(e)
					f.class("iso:x_den_structured")
					f.emitF("MIso", kv{"x", be32(sx)}, kv{"y", be32(sy)}, kv{"res", f.resultObs(r2)})
				}
			}
			// the isogeny on other points of E' (sums of mapped points), when raw coordinates can be written
			if secp256k1.VerifAccessor && j%3 == 2 {
				u2 := f.randBig(bigP)
				x2, y2, _ := sswuRef(u2)
				xb, yb := new(big.Int).SetBytes(x), new(big.Int).SetBytes(y)
				if sx, sy, ok := addIsoRef(xb, yb, x2, y2); ok {
					e := secp256k1.NewElement()
					xl, yl, zl := secp256k1.VerifLimbs(e)
					*xl, *yl, *zl = montLimbs(sx, bigP), montLimbs(sy, bigP), montLimbs(one, bigP)
					r2 := secp256k1.IsogenySecp256k13iso(e)
					f.class("iso:sum_of_mapped_points")
					f.emitF("MIso", kv{"x", be32(sx)}, kv{"y", be32(sy)}, kv{"res", f.resultObs(r2)})
				}
			}
		}
	}
}

// solveTv2 returns u with Z^2 u^4 + Z u^2 = w for a structured w, or nil.
func (f *MM) solveTv2() *big.Int {
	for try := 0; try < 40; try++ {
		var wm *big.Int
		if f.rng.Intn(2) == 0 {
			wm = f.limbStruct()
		} else {
			wm, _ = f.window()
		}
		w := mulmod(new(big.Int).Mod(wm, bigP), rInvP, bigP) // the value whose Montgomery form is wm
		// v = (-1 +- sqrt(1 + 4w)) / (2Z)
		d := new(big.Int).Lsh(w, 2)
		d.Add(d, one).Mod(d, bigP)
		sq := new(big.Int).ModSqrt(d, bigP)
		if sq == nil {
			continue
		}
		if f.rng.Intn(2) == 0 {
			sq.Sub(bigP, sq)
		}
		num := new(big.Int).Sub(sq, one)
		den := new(big.Int).ModInverse(new(big.Int).Mod(new(big.Int).Lsh(sswuZ, 1), bigP), bigP)
		v := mulmod(new(big.Int).Mod(num, bigP), den, bigP)
		if u := new(big.Int).ModSqrt(v, bigP); u != nil {
			return u
		}
	}
	return nil
}

// structuredXDenPoint returns a point (x, y) of E' whose isogeny x-denominator x^2 + k21 x + k20 has structured
// Montgomery limbs (the zero test of the isogeny looks at exactly this value), or nil.
func (f *MM) structuredXDenPoint() (*big.Int, *big.Int) {
	k20, _ := new(big.Int).SetString("d35771193d94918a9ca34ccbb7b640dd86cd409542f8487d9fe6b745781eb49b", 16)
	k21, _ := new(big.Int).SetString("edadc6f64383dc1df7c4b2d51b54225406d36b641f5e41bbc52a56612a8c6d14", 16)
	inv2 := new(big.Int).ModInverse(two, bigP)
	for try := 0; try < 60; try++ {
		w := mulmod(new(big.Int).Mod(f.limbStruct(), bigP), rInvP, bigP)
		// x^2 + k21 x + (k20 - w) = 0
		disc := mulmod(k21, k21, bigP)
		t := new(big.Int).Sub(k20, w)
		disc.Sub(disc, new(big.Int).Lsh(t, 2)).Mod(disc, bigP)
		sq := new(big.Int).ModSqrt(disc, bigP)
		if sq == nil {
			continue
		}
		x := new(big.Int).Sub(sq, k21)
		x = mulmod(new(big.Int).Mod(x, bigP), inv2, bigP)
		if y := new(big.Int).ModSqrt(gIso(x), bigP); y != nil {
			return x, y
		}
	}
	return nil, nil
}

func init() {
	gens["C11"] = func(m *M, pick func(q, t int) int, shards int) {
		total := pick(600, 100000)
		perFile(m, total, shards)
		genC11(m, total)
	}
}
