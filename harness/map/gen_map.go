package main

// C11: the exported map-to-curve functions SSWU and IsogenySecp256k13iso.  This file depends on nothing of
// internal/field but the TYPE field.Element being a struct around four 64-bit Montgomery limbs: inputs are written
// and outputs read through unsafe pointers and converted with math/big, so renaming the methods or the field of
// that type does not stop the check (the field-primitive pass C11f, which needs the method names, is optional).

import (
	"math/big"
	"strings"
	"unsafe"

	"github.com/bytemare/secp256k1"
	"github.com/bytemare/secp256k1/internal/field"
)

type MM struct {
	hornerNext int
	*M
	F [4]*field.Element
}

func limbsOf(e *field.Element) *[4]uint64 { return (*[4]uint64)(unsafe.Pointer(e)) }

func canonOf(e *field.Element) *big.Int { return mulmod(limbsToBig(*limbsOf(e)), rInvP, bigP) }

func (f *MM) obs() []kv {
	fs := make([]any, len(f.F))
	eq := make([]int, len(f.F))
	for i, e := range f.F {
		fs[i] = be32(canonOf(e))
		eq[i] = 1
		if limbsToBig(*limbsOf(e)).Cmp(bigP) >= 0 {
			eq[i] = 0 // stored limbs not canonical
		}
	}
	return []kv{{"F", fs}, {"eq", eq}}
}

func (f *MM) emitF(op string, fields ...kv) {
	if f.w == nil {
		f.openShard()
	}
	all := append([]kv{{"op", op}}, fields...)
	all = append(all, kv{"obs", f.obs()})
	var sb strings.Builder
	jsonVal(&sb, all)
	f.w.WriteString(sb.String())
	f.w.WriteByte('\n')
	f.events++
	f.inShard++
	f.classes["op:"+op]++
}

func (f *MM) reset() {
	if f.w == nil || f.inShard >= f.perFile {
		f.openShard()
	}
	for i := range f.F {
		f.F[i] = new(field.Element)
	}
	f.hist++
	f.emitF("FReset")
}

func (f *MM) setInt(d int, v *big.Int) {
	mustBeBelow(v, bigP, "FSetInt")
	*limbsOf(f.F[d]) = montLimbs(v, bigP)
	f.emitF("FSetInt", kv{"d", d + 1}, kv{"v", be32(v)})
}

// ---------------------------------------------------------------- C11

func readAffine(e *secp256k1.Element) (x, y []byte) {
	if rawOK {
		xl, yl, _ := secp256k1.VerifLimbs(e)
		rinv := new(big.Int).ModInverse(bigR, bigP)
		return be32(mulmod(limbsToBig(*xl), rinv, bigP)), be32(mulmod(limbsToBig(*yl), rinv, bigP))
	}
	u := e.EncodeUncompressed() // Z = 1 after SSWU: 04 || x || y
	if len(u) != 65 {
		return make([]byte, 32), make([]byte, 32)
	}
	return u[1:33], u[33:]
}

func (f *MM) resultObs(e *secp256k1.Element) []kv {
	enc := e.Encode()
	w, sq := f.witnessFor(enc)
	return []kv{{"enc", enc}, {"id", e.IsIdentity()}, {"y", w}, {"sq", sq}}
}

func genC11(m *M, budget int) {
	f := &MM{M: m}
	// the three exceptional u: 0 and +-sqrt(-1/Z)
	negInvZ := new(big.Int).ModInverse(sswuZ, bigP)
	negInvZ.Neg(negInvZ).Mod(negInvZ, bigP)
	exc := new(big.Int).ModSqrt(negInvZ, bigP)
	i := 0
	// the carry-coverage corpus: u whose stored form is an operand solved for a site of field.Square / Mul (u^2 first)
	nc := 0
	for _, e := range loadCorpus("field") {
		if e.Func != "Square" && e.Func != "Mul" {
			continue
		}
		for _, a := range e.arrays() {
			if a.Cmp(bigP) >= 0 {
				continue
			}
			if nc%20 == 0 {
				f.reset()
			}
			nc++
			f.class("corpus:carry_sites")
			f.setInt(0, mulmod(a, rInvP, bigP))
			q := secp256k1.SSWU(f.F[0])
			x, y := readAffine(q)
			f.emitF("MSswu", kv{"a", 1}, kv{"x", x}, kv{"y", y})
			f.emitF("MIso", kv{"x", x}, kv{"y", y}, kv{"res", f.resultObs(secp256k1.IsogenySecp256k13iso(q))})
		}
	}
	budget += f.events
	for f.events < budget {
		f.reset()
		for j := 0; j < 10; j++ {
			var u *big.Int
			cls := ""
			switch i % 12 {
			case 0:
				u, cls = big.NewInt(0), "u=0(exceptional)"
			case 1:
				if exc != nil {
					u, cls = exc, "u=+sqrt(-1/Z)(exceptional)"
				} else {
					u, cls = big.NewInt(1), "one"
				}
			case 2:
				if exc != nil {
					u, cls = new(big.Int).Sub(bigP, exc), "u=-sqrt(-1/Z)(exceptional)"
				} else {
					u, cls = big.NewInt(2), "two"
				}
			case 3:
				u, cls = big.NewInt(1), "one"
			case 4:
				u, cls = new(big.Int).Sub(bigP, one), "minus_one"
			case 5:
				u, cls = big.NewInt(int64(2+f.rng.Intn(1000))), "small"
			default:
				u, cls = f.randBig(bigP), "random"
			}
			if i%12 >= 9 {
				// u for which the intermediate  tv2 = Z^2 u^4 + Z u^2  has boundary / structured Montgomery limbs (the
				// exceptional-case test looks at exactly this value): solve  Z^2 v^2 + Z v - w = 0  for v = u^2
				if uu := f.solveTv2(); uu != nil {
					u, cls = uu, "tv2_structured"
				}
			}
			i++
			_, _, first := sswuRef(u)
			f.class("u:" + cls)
			f.class(map[bool]string{true: "gx1:square", false: "gx1:nonsquare"}[first])
			f.class(map[uint]string{0: "sgn0(u)=0", 1: "sgn0(u)=1"}[u.Bit(0)])
			f.setInt(0, u)
			q := secp256k1.SSWU(f.F[0])
			x, y := readAffine(q)
			f.emitF("MSswu", kv{"a", 1}, kv{"x", x}, kv{"y", y})
			r := secp256k1.IsogenySecp256k13iso(q)
			f.emitF("MIso", kv{"x", x}, kv{"y", y}, kv{"res", f.resultObs(r)})
			if j%2 == 0 { // the curve polynomial x^3 + 7 on the same value (exported; the decoders rest on it)
				secp256k1.Secp256Polynomial(f.F[1], f.F[0])
				f.emitF("MPoly", kv{"d", 2}, kv{"a", 1})
			}
			if j == 9 && len(f.horner()) > 0 {
				// points of E' at which a PARTIAL sum of one of the four isogeny polynomials vanishes (where a zero test
				// placed one step early or late in the evaluation fires), reached through the map itself when a u exists
				h := f.horner()[f.hornerNext%len(f.horner())]
				f.hornerNext++
				f.class("iso:partial_sum_root")
				if h.u != nil {
					f.setInt(0, h.u)
					q := secp256k1.SSWU(f.F[0])
					hx, hy := readAffine(q)
					f.emitF("MSswu", kv{"a", 1}, kv{"x", hx}, kv{"y", hy})
					f.emitF("MIso", kv{"x", hx}, kv{"y", hy}, kv{"res", f.resultObs(secp256k1.IsogenySecp256k13iso(q))})
				} else if rawOK {
					e := secp256k1.NewElement()
					xl, yl, zl := secp256k1.VerifLimbs(e)
					*xl, *yl, *zl = montLimbs(h.x, bigP), montLimbs(h.y, bigP), montLimbs(one, bigP)
					f.emitF("MIso", kv{"x", be32(h.x)}, kv{"y", be32(h.y)}, kv{"res", f.resultObs(secp256k1.IsogenySecp256k13iso(e))})
				}
			}
			if rawOK && j%5 == 4 {
				if sx, sy := f.structuredXDenPoint(); sx != nil {
					e := secp256k1.NewElement()
					xl, yl, zl := secp256k1.VerifLimbs(e)
					*xl, *yl, *zl = montLimbs(sx, bigP), montLimbs(sy, bigP), montLimbs(one, bigP)
					r2 := secp256k1.IsogenySecp256k13iso(e)
					f.class("iso:x_den_structured")
					f.emitF("MIso", kv{"x", be32(sx)}, kv{"y", be32(sy)}, kv{"res", f.resultObs(r2)})
				}
			}
			// the isogeny on other points of E' (sums of mapped points), when raw coordinates can be written
			if rawOK && j%3 == 2 {
				u2 := f.randBig(bigP)
				x2, y2, _ := sswuRef(u2)
				xb, yb := new(big.Int).SetBytes(x), new(big.Int).SetBytes(y)
				if sx, sy, ok := addIsoRef(xb, yb, x2, y2); ok {
					e := secp256k1.NewElement()
					xl, yl, zl := secp256k1.VerifLimbs(e)
					*xl, *yl, *zl = montLimbs(sx, bigP), montLimbs(sy, bigP), montLimbs(one, bigP)
					r2 := secp256k1.IsogenySecp256k13iso(e)
					f.class("iso:sum_of_mapped_points")
					f.emitF("MIso", kv{"x", be32(sx)}, kv{"y", be32(sy)}, kv{"res", f.resultObs(r2)})
				}
			}
		}
	}
}

type hornerPoint struct{ x, y, u *big.Int }

var hornerMemo []hornerPoint
var hornerDone bool

func hx(s string) *big.Int { v, _ := new(big.Int).SetString(s, 16); return v }

// quadRoots: the roots of a x^2 + b x + c over GF(p) (a may be 0).
func quadRoots(a, b, c *big.Int) []*big.Int {
	a, b, c = new(big.Int).Mod(a, bigP), new(big.Int).Mod(b, bigP), new(big.Int).Mod(c, bigP)
	if a.Sign() == 0 {
		if b.Sign() == 0 {
			return nil
		}
		return []*big.Int{mulmod(new(big.Int).Sub(bigP, c), new(big.Int).ModInverse(b, bigP), bigP)}
	}
	d := mulmod(b, b, bigP)
	d.Sub(d, mulmod(big.NewInt(4), mulmod(a, c, bigP), bigP)).Mod(d, bigP)
	sq := new(big.Int).ModSqrt(d, bigP)
	if sq == nil {
		return nil
	}
	i2a := new(big.Int).ModInverse(new(big.Int).Mod(new(big.Int).Lsh(a, 1), bigP), bigP)
	r1 := mulmod(new(big.Int).Mod(new(big.Int).Sub(sq, b), bigP), i2a, bigP)
	r2 := mulmod(new(big.Int).Mod(new(big.Int).Neg(new(big.Int).Add(sq, b)), bigP), i2a, bigP)
	return []*big.Int{r1, r2}
}

// sswuPreimages: every u with SSWU(u).x = x  (t = Z u^2 solves a quadratic in either branch of the map).
func sswuPreimages(x *big.Int) []*big.Int {
	var out []*big.Int
	c := mulmod(new(big.Int).Sub(bigP, x), mulmod(isoA, new(big.Int).ModInverse(isoB, bigP), bigP), bigP) // -x A / B
	var ts []*big.Int
	// x = x1:  1 + 1/(t^2+t) = c   =>  (c-1)(t^2 + t) - 1 = 0
	cm1 := new(big.Int).Mod(new(big.Int).Sub(c, one), bigP)
	ts = append(ts, quadRoots(cm1, cm1, new(big.Int).Sub(bigP, one))...)
	// x = t x1:  t + 1/(t+1) = c  =>  t^2 + (1-c) t + (1-c) = 0
	omc := new(big.Int).Mod(new(big.Int).Sub(one, c), bigP)
	ts = append(ts, quadRoots(one, omc, omc)...)
	zi := new(big.Int).ModInverse(sswuZ, bigP)
	for _, t := range ts {
		if u := new(big.Int).ModSqrt(mulmod(t, zi, bigP), bigP); u != nil {
			for _, uu := range []*big.Int{u, new(big.Int).Sub(bigP, u)} {
				if sx, _, _ := sswuRef(uu); sx.Cmp(x) == 0 {
					out = append(out, uu)
				}
			}
		}
	}
	return out
}

// horner lists the points of E' whose x is a root of a leading or trailing partial sum (degree 1 or 2) of one of
// the isogeny's numerator / denominator polynomials, with a u that the simplified SWU map sends there if one exists.
func (f *MM) horner() []hornerPoint {
	if hornerDone {
		return hornerMemo
	}
	hornerDone = true
	polys := [][]*big.Int{ // coefficients, highest degree first
		{hx("8e38e38e38e38e38e38e38e38e38e38e38e38e38e38e38e38e38e38daaaaa88c"), hx("534c328d23f234e6e2a413deca25caece4506144037c40314ecbd0b53d9dd262"), hx("07d3d4c80bc321d5b9f315cea7fd44c5d595d2fc0bf63b92dfff1044f17c6581"), hx("8e38e38e38e38e38e38e38e38e38e38e38e38e38e38e38e38e38e38daaaaa8c7")},
		{big.NewInt(1), hx("edadc6f64383dc1df7c4b2d51b54225406d36b641f5e41bbc52a56612a8c6d14"), hx("d35771193d94918a9ca34ccbb7b640dd86cd409542f8487d9fe6b745781eb49b")},
		{hx("2f684bda12f684bda12f684bda12f684bda12f684bda12f684bda12f38e38d84"), hx("29a6194691f91a73715209ef6512e576722830a201be2018a765e85a9ecee931"), hx("c75e0c32d5cb7c0fa9d0a54b12a0a6d5647ab046d686da6fdffc90fc201d71a3"), hx("4bda12f684bda12f684bda12f684bda12f684bda12f684bda12f684b8e38e23c")},
		{big.NewInt(1), hx("6484aa716545ca2cf3a70c3fa8fe337e0a3d21162f0d6299a7bf8192bfd2a76f"), hx("7a06534bb8bdb49fd5e9e6632722c2989467c1bfc8e8d978dfb425d2685c2573"), hx("fffffffffffffffffffffffffffffffffffffffffffffffffffffffefffff93b")},
	}
	zero := big.NewInt(0)
	xs := []*big.Int{zero}
	for _, c := range polys {
		d := len(c)
		xs = append(xs, quadRoots(zero, c[0], c[1])...)     // leading linear part
		xs = append(xs, quadRoots(c[0], c[1], c[2])...)     // leading quadratic part
		xs = append(xs, quadRoots(zero, c[d-2], c[d-1])...) // trailing linear part
		xs = append(xs, quadRoots(c[d-3], c[d-2], c[d-1])...)
	}
	seen := map[string]bool{}
	for _, x := range xs {
		if seen[x.String()] {
			continue
		}
		seen[x.String()] = true
		y := new(big.Int).ModSqrt(gIso(x), bigP)
		if y == nil {
			continue
		}
		us := sswuPreimages(x)
		if len(us) == 0 {
			hornerMemo = append(hornerMemo, hornerPoint{x, y, nil}, hornerPoint{x, new(big.Int).Sub(bigP, y), nil})
		}
		for _, u := range us {
			hornerMemo = append(hornerMemo, hornerPoint{x: x, u: u})
		}
	}
	return hornerMemo
}

// solveTv2 returns u with Z^2 u^4 + Z u^2 = w for a structured w, or nil.
func (f *MM) solveTv2() *big.Int {
	for try := 0; try < 40; try++ {
		wm, _ := f.resultTarget(bigP)
		w := mulmod(new(big.Int).Mod(wm, bigP), rInvP, bigP) // the value whose Montgomery form is wm
		// v = (-1 +- sqrt(1 + 4w)) / (2Z)
		d := new(big.Int).Lsh(w, 2)
		d.Add(d, one).Mod(d, bigP)
		sq := new(big.Int).ModSqrt(d, bigP)
		if sq == nil {
			continue
		}
		if f.rng.Intn(2) == 0 {
			sq.Sub(bigP, sq)
		}
		num := new(big.Int).Sub(sq, one)
		den := new(big.Int).ModInverse(new(big.Int).Mod(new(big.Int).Lsh(sswuZ, 1), bigP), bigP)
		v := mulmod(new(big.Int).Mod(num, bigP), den, bigP)
		if u := new(big.Int).ModSqrt(v, bigP); u != nil {
			return u
		}
	}
	return nil
}

// structuredXDenPoint returns a point (x, y) of E' whose isogeny x-denominator x^2 + k21 x + k20 has structured
// Montgomery limbs (the zero test of the isogeny looks at exactly this value), or nil.
func (f *MM) structuredXDenPoint() (*big.Int, *big.Int) {
	k20, _ := new(big.Int).SetString("d35771193d94918a9ca34ccbb7b640dd86cd409542f8487d9fe6b745781eb49b", 16)
	k21, _ := new(big.Int).SetString("edadc6f64383dc1df7c4b2d51b54225406d36b641f5e41bbc52a56612a8c6d14", 16)
	inv2 := new(big.Int).ModInverse(two, bigP)
	for try := 0; try < 60; try++ {
		w := mulmod(new(big.Int).Mod(f.limbStruct(), bigP), rInvP, bigP)
		// x^2 + k21 x + (k20 - w) = 0
		disc := mulmod(k21, k21, bigP)
		t := new(big.Int).Sub(k20, w)
		disc.Sub(disc, new(big.Int).Lsh(t, 2)).Mod(disc, bigP)
		sq := new(big.Int).ModSqrt(disc, bigP)
		if sq == nil {
			continue
		}
		x := new(big.Int).Sub(sq, k21)
		x = mulmod(new(big.Int).Mod(x, bigP), inv2, bigP)
		if y := new(big.Int).ModSqrt(gIso(x), bigP); y != nil {
			return x, y
		}
	}
	return nil, nil
}

func init() {
	gens["C11"] = func(m *M, pick func(q, t int) int, shards int) {
		total := pick(600, 100000)
		perFile(m, total, shards)
		genC11(m, total)
	}
}
