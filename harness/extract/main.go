// extract turns the straight-line word-level functions of internal/field and internal/scalar (the Fiat-Crypto
// output and the hand-written reductions around it) into data: for each function a DAG of 64-bit operations
// (add-with-carry, sub-with-borrow, 64x64->128 multiply, logic, shifts) over its inputs, read from the CURRENT
// source tree with go/ast.  Functions with loops, branches, signed arithmetic or calls that leave the package are
// reported as "skipped" with the reason; nothing is guessed.
//
// The DAG is used by bin/carrycov.py to find inputs that drive every carry / borrow / overflow site of THIS tree's
// code both ways (random search first, z3 for the rest).  Those inputs are only inputs: what the code does on them is
// judged, like everything else, by replaying the recorded calls against the TLA+ specification.
//
// usage: go run main.go <repo>  > programs.json
package main

import (
	"encoding/json"
	"fmt"
	"go/ast"
	"go/parser"
	"go/token"
	"os"
	"path/filepath"
	"sort"
	"strconv"
	"strings"
)

type node struct {
	Op   string `json:"op"`
	Args []int  `json:"a,omitempty"`
	W    int    `json:"w"`
	Val  string `json:"v,omitempty"` // const value (decimal) or input name
	Idx  int    `json:"i,omitempty"` // input element index / tuple component
	Pos  string `json:"pos,omitempty"`
}

type program struct {
	Pkg     string           `json:"pkg"`
	Func    string           `json:"func"`
	Inputs  []inputDecl      `json:"inputs"`
	Outputs map[string][]int `json:"outputs"`
	Nodes   []node           `json:"nodes"`
	Sites   []site           `json:"sites"`
}

type inputDecl struct {
	Name string `json:"name"`
	Len  int    `json:"len"` // 0: scalar
	W    int    `json:"w"`
}

type site struct {
	Kind string `json:"kind"` // add64 | sub64 | plus | minus | callarg
	A    []int  `json:"a"`    // operand nodes
	R    []int  `json:"r"`    // result nodes
	Pos  string `json:"pos"`
}

type skipped struct {
	Pkg, Func, Reason string
}

// ------------------------------------------------------------------ package model

type pkgInfo struct {
	name  string
	fset  *token.FileSet
	funcs map[string]*ast.FuncDecl
	types map[string]ast.Expr // named type -> underlying expression
}

type unsupported struct{ why string }

func fail(f string, a ...any) { panic(unsupported{fmt.Sprintf(f, a...)}) }

// value: a scalar cell or an array of cells; cells make aliasing through pointers exact.
type cell struct {
	id int // node id; -1: unset (zero value)
	w  int
}
type value struct {
	sc  *cell
	arr []*cell
}

type exec struct {
	p       *pkgInfo
	prog    *program
	depth   int
	lastAgg *value // aggregate returned by the last inlined call
}

func (p *pkgInfo) widthOf(t ast.Expr) (w int, n int, ok bool) { // n > 0: array of n
	switch tt := t.(type) {
	case *ast.Ident:
		switch tt.Name {
		case "uint64", "uint", "uintptr":
			return 64, 0, true
		case "uint32":
			return 32, 0, true
		case "uint16":
			return 16, 0, true
		case "uint8", "byte":
			return 8, 0, true
		case "int", "int64", "int32", "int8", "int16":
			return 0, 0, false
		}
		if u, found := p.types[tt.Name]; found {
			return p.widthOf(u)
		}
	case *ast.ArrayType:
		if tt.Len == nil {
			return 0, 0, false
		}
		l, okl := tt.Len.(*ast.BasicLit)
		ln := 0
		if okl {
			ln, _ = strconv.Atoi(l.Value)
		} else if id, isId := tt.Len.(*ast.Ident); isId {
			ln = p.constInt(id.Name)
		}
		w, n2, ok2 := p.widthOf(tt.Elt)
		if !ok2 || n2 != 0 || ln <= 0 {
			return 0, 0, false
		}
		return w, ln, true
	case *ast.StarExpr:
		return p.widthOf(tt.X)
	case *ast.ParenExpr:
		return p.widthOf(tt.X)
	}
	return 0, 0, false
}

var pkgConsts = map[string]map[string]int{}

func (p *pkgInfo) constInt(name string) int { return pkgConsts[p.name][name] }

func (e *exec) add(n node) int {
	e.prog.Nodes = append(e.prog.Nodes, n)
	return len(e.prog.Nodes) - 1
}

func (e *exec) konst(v uint64, w int) int {
	return e.add(node{Op: "const", W: w, Val: strconv.FormatUint(v, 10)})
}

func (e *exec) read(c *cell) int {
	if c.id < 0 {
		c.id = e.konst(0, c.w)
	}
	return c.id
}

type scope struct {
	vars   map[string]*value
	parent *scope
	rets   []int
	retAgg *value
	done   bool
}

func (s *scope) get(n string) *value {
	for x := s; x != nil; x = x.parent {
		if v, ok := x.vars[n]; ok {
			return v
		}
	}
	return nil
}

func (e *exec) pos(n ast.Node) string {
	p := e.p.fset.Position(n.Pos())
	return filepath.Base(p.Filename) + ":" + strconv.Itoa(p.Line)
}

// untyped constants carry W = 0 until they meet a typed operand
func (e *exec) coerce(id, w int) int {
	if e.prog.Nodes[id].W == 0 {
		v, _ := strconv.ParseUint(e.prog.Nodes[id].Val, 10, 64)
		if w < 64 {
			v &= (1 << uint(w)) - 1
		}
		return e.konst(v, w)
	}
	return id
}

func (e *exec) expr(s *scope, x ast.Expr) int {
	switch t := x.(type) {
	case *ast.ParenExpr:
		return e.expr(s, t.X)
	case *ast.BasicLit:
		if t.Kind != token.INT {
			fail("literal %s", t.Value)
		}
		v, err := strconv.ParseUint(strings.ReplaceAll(t.Value, "_", ""), 0, 64)
		if err != nil {
			fail("literal %s", t.Value)
		}
		return e.add(node{Op: "const", W: 0, Val: strconv.FormatUint(v, 10)})
	case *ast.Ident:
		v := s.get(t.Name)
		if v == nil {
			if c, ok := pkgConsts[e.p.name][t.Name]; ok {
				return e.add(node{Op: "const", W: 0, Val: strconv.Itoa(c)})
			}
			fail("unknown identifier %s", t.Name)
		}
		if v.sc == nil {
			fail("array %s used as a value", t.Name)
		}
		return e.read(v.sc)
	case *ast.IndexExpr:
		arr := e.arrayOf(s, t.X)
		i := e.constIndex(s, t.Index)
		if i < 0 || i >= len(arr) {
			fail("index out of range")
		}
		return e.read(arr[i])
	case *ast.StarExpr:
		v := e.lvalue(s, t.X)
		if v.sc == nil {
			fail("deref of array")
		}
		return e.read(v.sc)
	case *ast.UnaryExpr:
		a := e.expr(s, t.X)
		w := e.prog.Nodes[a].W
		switch t.Op {
		case token.XOR:
			if w == 0 {
				fail("complement of an untyped constant")
			}
			return e.add(node{Op: "not", Args: []int{a}, W: w})
		case token.SUB:
			if w == 0 {
				fail("negated untyped constant")
			}
			return e.add(node{Op: "neg", Args: []int{a}, W: w})
		case token.ADD:
			return a
		}
		fail("unary %s", t.Op)
	case *ast.BinaryExpr:
		a, b := e.expr(s, t.X), e.expr(s, t.Y)
		wa, wb := e.prog.Nodes[a].W, e.prog.Nodes[b].W
		op := map[token.Token]string{token.ADD: "plus", token.SUB: "minus", token.MUL: "times", token.AND: "and", token.OR: "or",
			token.XOR: "xor", token.AND_NOT: "andnot", token.SHL: "shl", token.SHR: "shr"}[t.Op]
		if op == "" {
			fail("binary %s", t.Op)
		}
		if op == "shl" || op == "shr" {
			if wa == 0 {
				fail("shift of an untyped constant")
			}
			if wb == 0 {
				b = e.coerce(b, 64)
			}
			return e.add(node{Op: op, Args: []int{a, b}, W: wa})
		}
		w := wa
		if w == 0 {
			w = wb
		}
		if w == 0 { // constant folding of untyped constants
			va, _ := strconv.ParseUint(e.prog.Nodes[a].Val, 10, 64)
			vb, _ := strconv.ParseUint(e.prog.Nodes[b].Val, 10, 64)
			var r uint64
			switch op {
			case "plus":
				r = va + vb
			case "minus":
				if vb > va {
					fail("negative untyped constant")
				}
				r = va - vb
			case "times":
				r = va * vb
			case "and":
				r = va & vb
			case "or":
				r = va | vb
			case "xor":
				r = va ^ vb
			default:
				fail("constant %s", op)
			}
			return e.add(node{Op: "const", W: 0, Val: strconv.FormatUint(r, 10)})
		}
		if wa != 0 && wb != 0 && wa != wb {
			fail("mixed widths %d %d", wa, wb)
		}
		a, b = e.coerce(a, w), e.coerce(b, w)
		id := e.add(node{Op: op, Args: []int{a, b}, W: w, Pos: e.pos(t)})
		if (op == "plus" || op == "minus") && e.prog.Nodes[a].Op != "const" && e.prog.Nodes[b].Op != "const" {
			e.prog.Sites = append(e.prog.Sites, site{Kind: op, A: []int{a, b}, R: []int{id}, Pos: e.pos(t)})
		}
		return id
	case *ast.CallExpr:
		r := e.call(s, t)
		if len(r) != 1 {
			fail("call with %d results used as a value", len(r))
		}
		return r[0]
	}
	fail("expression %T", x)
	return -1
}

func (e *exec) constIndex(s *scope, x ast.Expr) int {
	id := e.expr(s, x)
	if e.prog.Nodes[id].Op != "const" {
		fail("non-constant index")
	}
	v, _ := strconv.Atoi(e.prog.Nodes[id].Val)
	return v
}

// arrayOf resolves x (ident, pointer conversions, &ident, *ident) to the cells of an array.
func (e *exec) arrayOf(s *scope, x ast.Expr) []*cell {
	v := e.lvalue(s, x)
	if v.arr == nil {
		fail("not an array")
	}
	return v.arr
}

func (e *exec) lvalue(s *scope, x ast.Expr) *value {
	switch t := x.(type) {
	case *ast.ParenExpr:
		return e.lvalue(s, t.X)
	case *ast.Ident:
		v := s.get(t.Name)
		if v == nil {
			fail("unknown identifier %s", t.Name)
		}
		return v
	case *ast.StarExpr:
		return e.lvalue(s, t.X)
	case *ast.UnaryExpr:
		if t.Op == token.AND {
			return e.lvalue(s, t.X)
		}
	case *ast.CallExpr: // pointer conversion (*[4]uint64)(out)
		if len(t.Args) == 1 {
			if _, n, ok := e.p.widthOf(t.Fun); ok && n > 0 {
				v := e.lvalue(s, t.Args[0])
				if len(v.arr) == n {
					return v
				}
			}
		}
	case *ast.IndexExpr:
		arr := e.arrayOf(s, t.X)
		i := e.constIndex(s, t.Index)
		if i < 0 || i >= len(arr) {
			fail("index out of range")
		}
		return &value{sc: arr[i]}
	case *ast.SelectorExpr: // e.E  -- a struct with one array field is treated as that array
		v := e.lvalue(s, t.X)
		if v.arr != nil {
			return v
		}
	}
	fail("lvalue %T", x)
	return nil
}

func (e *exec) call(s *scope, c *ast.CallExpr) []int {
	// conversions
	if w, n, ok := e.p.widthOf(c.Fun); ok && n == 0 && len(c.Args) == 1 {
		a := e.expr(s, c.Args[0])
		wa := e.prog.Nodes[a].W
		if wa == 0 {
			return []int{e.coerce(a, w)}
		}
		if wa == w {
			return []int{a}
		}
		if w < wa {
			return []int{e.add(node{Op: "trunc", Args: []int{a}, W: w})}
		}
		return []int{e.add(node{Op: "zext", Args: []int{a}, W: w})}
	}
	if sel, ok := c.Fun.(*ast.SelectorExpr); ok {
		if id, ok2 := sel.X.(*ast.Ident); ok2 && id.Name == "bits" {
			if len(c.Args) != 3 && sel.Sel.Name != "Mul64" {
				fail("bits.%s arity", sel.Sel.Name)
			}
			var a []int
			for _, x := range c.Args {
				a = append(a, e.coerce(e.expr(s, x), 64))
			}
			switch sel.Sel.Name {
			case "Add64", "Sub64":
				op := map[string]string{"Add64": "add64", "Sub64": "sub64"}[sel.Sel.Name]
				t := e.add(node{Op: op, Args: a, W: 64, Pos: e.pos(c)})
				r0 := e.add(node{Op: "proj", Args: []int{t}, Idx: 0, W: 64})
				r1 := e.add(node{Op: "proj", Args: []int{t}, Idx: 1, W: 64})
				e.prog.Sites = append(e.prog.Sites, site{Kind: op, A: a, R: []int{r0, r1}, Pos: e.pos(c)})
				return []int{r0, r1}
			case "Mul64":
				t := e.add(node{Op: "mul64", Args: a, W: 64, Pos: e.pos(c)})
				for _, x := range a { // a multiplier that is computed (a quotient digit, a carry-laden limb): special values
					if o := e.prog.Nodes[x].Op; o != "const" && o != "input" {
						e.prog.Sites = append(e.prog.Sites, site{Kind: "mulop", A: []int{x}, Pos: e.pos(c)})
					}
				}
				return []int{e.add(node{Op: "proj", Args: []int{t}, Idx: 0, W: 64}), e.add(node{Op: "proj", Args: []int{t}, Idx: 1, W: 64})}
			}
			fail("bits.%s", sel.Sel.Name)
		}
		fail("call into another package or a method: %s", sel.Sel.Name)
	}
	id, ok := c.Fun.(*ast.Ident)
	if !ok {
		fail("call %T", c.Fun)
	}
	fd := e.p.funcs[id.Name]
	if fd == nil {
		fail("unknown function %s", id.Name)
	}
	if e.depth > 6 {
		fail("call depth")
	}
	// bind parameters
	inner := &scope{vars: map[string]*value{}}
	i := 0
	for _, f := range fd.Type.Params.List {
		for _, nm := range f.Names {
			if i >= len(c.Args) {
				fail("arity of %s", id.Name)
			}
			arg := c.Args[i]
			i++
			_, isPtr := f.Type.(*ast.StarExpr)
			w, n, okw := e.p.widthOf(f.Type)
			if !okw {
				fail("parameter type of %s", id.Name)
			}
			switch {
			case isPtr:
				inner.vars[nm.Name] = e.lvalue(s, arg) // alias
			case n > 0: // array by value: copy
				src := e.arrayOf(s, arg)
				cp := make([]*cell, len(src))
				for k := range src {
					cp[k] = &cell{id: e.read(src[k]), w: w}
				}
				inner.vars[nm.Name] = &value{arr: cp}
			default:
				a := e.coerce(e.expr(s, arg), w)
				if e.prog.Nodes[a].W != w {
					fail("argument width")
				}
				inner.vars[nm.Name] = &value{sc: &cell{id: a, w: w}}
				if e.prog.Nodes[a].Op != "const" {
					e.prog.Sites = append(e.prog.Sites, site{Kind: "callarg", A: []int{a}, Pos: e.pos(c)})
				}
			}
		}
	}
	e.depth++
	e.block(inner, fd.Body.List)
	e.depth--
	e.lastAgg = inner.retAgg
	return inner.rets
}

func (e *exec) declare(s *scope, name string, t ast.Expr) {
	w, n, ok := e.p.widthOf(t)
	if !ok {
		fail("type of %s", name)
	}
	if n > 0 {
		arr := make([]*cell, n)
		for i := range arr {
			arr[i] = &cell{id: -1, w: w}
		}
		s.vars[name] = &value{arr: arr}
	} else {
		s.vars[name] = &value{sc: &cell{id: -1, w: w}}
	}
}

func (e *exec) assign(s *scope, lhs ast.Expr, id int, define bool) {
	if idn, ok := lhs.(*ast.Ident); ok {
		if idn.Name == "_" {
			return
		}
		if define && s.vars[idn.Name] == nil {
			w := e.prog.Nodes[id].W
			if w == 0 {
				fail("untyped constant defines %s", idn.Name)
			}
			s.vars[idn.Name] = &value{sc: &cell{id: id, w: w}}
			return
		}
	}
	v := e.lvalue(s, lhs)
	if v.sc == nil {
		fail("assignment to an array")
	}
	id = e.coerce(id, v.sc.w)
	if e.prog.Nodes[id].W != v.sc.w {
		fail("assignment width %d to %d", e.prog.Nodes[id].W, v.sc.w)
	}
	v.sc.id = id
}

func (e *exec) block(s *scope, list []ast.Stmt) {
	for _, st := range list {
		if s.done {
			fail("statement after return")
		}
		switch t := st.(type) {
		case *ast.DeclStmt:
			gd, ok := t.Decl.(*ast.GenDecl)
			if !ok || (gd.Tok != token.VAR) {
				fail("declaration")
			}
			for _, sp := range gd.Specs {
				vs := sp.(*ast.ValueSpec)
				for i, nm := range vs.Names {
					if vs.Type != nil {
						e.declare(s, nm.Name, vs.Type)
						if len(vs.Values) > i {
							e.assign(s, nm, e.expr(s, vs.Values[i]), false)
						}
					} else if len(vs.Values) > i {
						e.defineFrom(s, nm.Name, vs.Values[i])
					} else {
						fail("var without type")
					}
				}
			}
		case *ast.AssignStmt:
			switch {
			case t.Tok == token.ASSIGN || t.Tok == token.DEFINE:
				if len(t.Rhs) == 1 && len(t.Lhs) > 1 {
					c, ok := t.Rhs[0].(*ast.CallExpr)
					if !ok {
						fail("tuple assignment")
					}
					r := e.call(s, c)
					if len(r) != len(t.Lhs) {
						fail("tuple arity")
					}
					for i := range r {
						e.assign(s, t.Lhs[i], r[i], t.Tok == token.DEFINE)
					}
				} else if len(t.Rhs) == len(t.Lhs) {
					ids := make([]int, len(t.Rhs))
					for i := range t.Rhs {
						if t.Tok == token.DEFINE && len(t.Lhs) == 1 {
							if nm, ok := t.Lhs[0].(*ast.Ident); ok && s.vars[nm.Name] == nil && e.isAggregate(s, t.Rhs[0]) {
								e.defineFrom(s, nm.Name, t.Rhs[0])
								ids = nil
								break
							}
						}
						ids[i] = e.expr(s, t.Rhs[i])
					}
					for i := range ids {
						e.assign(s, t.Lhs[i], ids[i], t.Tok == token.DEFINE)
					}
				} else {
					fail("assignment shape")
				}
			default: // op=
				op := map[token.Token]token.Token{token.ADD_ASSIGN: token.ADD, token.SUB_ASSIGN: token.SUB, token.MUL_ASSIGN: token.MUL, token.AND_ASSIGN: token.AND,
					token.OR_ASSIGN: token.OR, token.XOR_ASSIGN: token.XOR, token.SHL_ASSIGN: token.SHL, token.SHR_ASSIGN: token.SHR, token.AND_NOT_ASSIGN: token.AND_NOT}[t.Tok]
				if op == 0 || len(t.Lhs) != 1 {
					fail("assignment operator %s", t.Tok)
				}
				id := e.expr(s, &ast.BinaryExpr{X: t.Lhs[0], Op: op, Y: t.Rhs[0], OpPos: t.TokPos})
				e.assign(s, t.Lhs[0], id, false)
			}
		case *ast.ExprStmt:
			c, ok := t.X.(*ast.CallExpr)
			if !ok {
				fail("expression statement")
			}
			e.call(s, c)
		case *ast.ReturnStmt:
			for _, r := range t.Results {
				if e.isAggregate(s, r) {
					if len(t.Results) != 1 || e.depth == 0 {
						fail("aggregate return")
					}
					e.defineFrom(s, "$ret", r)
					s.retAgg = s.vars["$ret"]
					break
				}
				s.rets = append(s.rets, e.expr(s, r))
			}
			s.done = true
		case *ast.EmptyStmt:
		default:
			fail("statement %T", st)
		}
	}
}

func (e *exec) isAggregate(s *scope, x ast.Expr) bool {
	switch t := x.(type) {
	case *ast.CompositeLit:
		return true
	case *ast.UnaryExpr:
		if t.Op == token.AND {
			return true
		}
	case *ast.Ident:
		if v := s.get(t.Name); v != nil && v.arr != nil {
			return true
		}
	case *ast.CallExpr:
		if id, ok := t.Fun.(*ast.Ident); ok {
			if fd := e.p.funcs[id.Name]; fd != nil && fd.Type.Results != nil && len(fd.Type.Results.List) == 1 {
				if _, n, ok := e.p.widthOf(fd.Type.Results.List[0].Type); ok && n > 0 {
					return true
				}
			}
		}
	}
	return false
}

// defineFrom: x := &T{a, b, c, d} / T{...} / other array (copy)
func (e *exec) defineFrom(s *scope, name string, x ast.Expr) {
	if u, ok := x.(*ast.UnaryExpr); ok && u.Op == token.AND {
		x = u.X
	}
	switch t := x.(type) {
	case *ast.CompositeLit:
		w, n, ok := e.p.widthOf(t.Type)
		if !ok || n == 0 {
			fail("composite literal type")
		}
		arr := make([]*cell, n)
		for i := range arr {
			arr[i] = &cell{id: -1, w: w}
		}
		for i, el := range t.Elts {
			if _, kv := el.(*ast.KeyValueExpr); kv || i >= n {
				fail("composite literal shape")
			}
			arr[i].id = e.coerce(e.expr(s, el), w)
		}
		s.vars[name] = &value{arr: arr}
	case *ast.CallExpr:
		e.lastAgg = nil
		e.call(s, t)
		if e.lastAgg == nil {
			fail("call does not return an aggregate")
		}
		s.vars[name] = e.lastAgg
	case *ast.Ident:
		v := s.get(t.Name)
		if v == nil || v.arr == nil {
			fail("aggregate %s", t.Name)
		}
		cp := make([]*cell, len(v.arr))
		for k := range v.arr {
			cp[k] = &cell{id: v.arr[k].id, w: v.arr[k].w}
		}
		s.vars[name] = &value{arr: cp}
	default:
		id := e.expr(s, x)
		w := e.prog.Nodes[id].W
		if w == 0 {
			w = 64 // untyped constant defaults to int; only accepted where it is used as an unsigned word
			fail("untyped constant variable %s", name)
		}
		s.vars[name] = &value{sc: &cell{id: id, w: w}}
	}
}

func extractFunc(p *pkgInfo, fd *ast.FuncDecl) (prog *program, why string) {
	defer func() {
		if r := recover(); r != nil {
			if u, ok := r.(unsupported); ok {
				prog, why = nil, u.why
				return
			}
			panic(r)
		}
	}()
	if fd.Recv != nil {
		return nil, "method"
	}
	if fd.Body == nil {
		return nil, "no body"
	}
	prog = &program{Pkg: p.name, Func: fd.Name.Name, Outputs: map[string][]int{}}
	e := &exec{p: p, prog: prog}
	s := &scope{vars: map[string]*value{}}
	type ptrParam struct {
		name  string
		cells []*cell
		init  []int
	}
	var ptrs []ptrParam
	for _, f := range fd.Type.Params.List {
		for _, nm := range f.Names {
			w, n, ok := p.widthOf(f.Type)
			if !ok {
				return nil, "parameter type"
			}
			if n > 0 {
				arr := make([]*cell, n)
				init := make([]int, n)
				for i := range arr {
					init[i] = e.add(node{Op: "input", W: w, Val: nm.Name, Idx: i})
					arr[i] = &cell{id: init[i], w: w}
				}
				s.vars[nm.Name] = &value{arr: arr}
				prog.Inputs = append(prog.Inputs, inputDecl{nm.Name, n, w})
				if _, isPtr := f.Type.(*ast.StarExpr); isPtr {
					ptrs = append(ptrs, ptrParam{nm.Name, arr, init})
				}
			} else {
				if _, isPtr := f.Type.(*ast.StarExpr); isPtr {
					c := &cell{id: -1, w: w}
					s.vars[nm.Name] = &value{sc: c}
					ptrs = append(ptrs, ptrParam{nm.Name, []*cell{c}, []int{-1}})
					continue
				}
				id := e.add(node{Op: "input", W: w, Val: nm.Name})
				s.vars[nm.Name] = &value{sc: &cell{id: id, w: w}}
				prog.Inputs = append(prog.Inputs, inputDecl{nm.Name, 0, w})
			}
		}
	}
	if fd.Type.Results != nil {
		for _, f := range fd.Type.Results.List {
			if _, n, ok := p.widthOf(f.Type); !ok || n > 0 {
				return nil, "result type"
			}
		}
	}
	e.block(s, fd.Body.List)
	for _, pp := range ptrs {
		changed := false
		ids := make([]int, len(pp.cells))
		for i, c := range pp.cells {
			ids[i] = c.id
			if c.id != pp.init[i] {
				changed = true
			}
			if c.id < 0 {
				ids[i] = e.konst(0, c.w)
			}
		}
		if changed {
			prog.Outputs[pp.name] = ids
		}
	}
	if len(s.rets) > 0 {
		prog.Outputs["return"] = s.rets
	}
	if len(prog.Outputs) == 0 {
		return nil, "no output"
	}
	// drop inputs that are never read (pure out-parameters)
	used := map[string]bool{}
	live := make([]bool, len(prog.Nodes))
	var mark func(int)
	mark = func(i int) {
		if live[i] {
			return
		}
		live[i] = true
		if prog.Nodes[i].Op == "input" {
			used[prog.Nodes[i].Val] = true
		}
		for _, a := range prog.Nodes[i].Args {
			mark(a)
		}
	}
	for _, o := range prog.Outputs {
		for _, i := range o {
			mark(i)
		}
	}
	for _, st := range prog.Sites {
		for _, i := range st.A {
			mark(i)
		}
	}
	var ins []inputDecl
	for _, in := range prog.Inputs {
		if used[in.Name] {
			ins = append(ins, in)
		}
	}
	prog.Inputs = ins
	if len(ins) == 0 {
		return nil, "no input"
	}
	return prog, ""
}

func loadPkg(dir, name string) *pkgInfo {
	p := &pkgInfo{name: name, fset: token.NewFileSet(), funcs: map[string]*ast.FuncDecl{}, types: map[string]ast.Expr{}}
	pkgConsts[name] = map[string]int{}
	files, _ := filepath.Glob(filepath.Join(dir, "*.go"))
	sort.Strings(files)
	for _, fn := range files {
		if strings.HasSuffix(fn, "_test.go") {
			continue
		}
		f, err := parser.ParseFile(p.fset, fn, nil, 0)
		if err != nil {
			fmt.Fprintln(os.Stderr, "extract:", err)
			os.Exit(2)
		}
		for _, d := range f.Decls {
			switch t := d.(type) {
			case *ast.FuncDecl:
				if t.Recv == nil {
					p.funcs[t.Name.Name] = t
				}
			case *ast.GenDecl:
				for _, sp := range t.Specs {
					switch ss := sp.(type) {
					case *ast.TypeSpec:
						if st, ok := ss.Type.(*ast.StructType); ok && len(st.Fields.List) == 1 {
							p.types[ss.Name.Name] = st.Fields.List[0].Type // struct { E [4]uint64 } is its array
						} else {
							p.types[ss.Name.Name] = ss.Type
						}
					case *ast.ValueSpec:
						if t.Tok == token.CONST {
							for i, nm := range ss.Names {
								if i < len(ss.Values) {
									if bl, ok := ss.Values[i].(*ast.BasicLit); ok && bl.Kind == token.INT {
										if v, err := strconv.ParseInt(bl.Value, 0, 64); err == nil {
											pkgConsts[name][nm.Name] = int(v)
										}
									}
								}
							}
						}
					}
				}
			}
		}
	}
	return p
}

func main() {
	repo := os.Args[1]
	var progs []*program
	var skips []skipped
	for _, name := range []string{"field", "scalar"} {
		p := loadPkg(filepath.Join(repo, "internal", name), name)
		var names []string
		for n := range p.funcs {
			names = append(names, n)
		}
		sort.Strings(names)
		for _, n := range names {
			prog, why := extractFunc(p, p.funcs[n])
			if prog == nil {
				skips = append(skips, skipped{name, n, why})
				continue
			}
			progs = append(progs, prog)
		}
	}
	json.NewEncoder(os.Stdout).Encode(map[string]any{"programs": progs, "skipped": skips})
}
