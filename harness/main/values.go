package main

// Operand classes.  The classes are the finite case analysis the specification defines (DESIGN 2.3);
// here they are concretised into 256-bit witnesses.  Concretisation is untrusted: the validator
// recomputes everything it needs from the logged bytes.

import (
	"math/big"
)

var (
	one  = big.NewInt(1)
	two  = big.NewInt(2)
	beta *big.Int // a primitive cube root of unity mod p: (beta x, y) is on the curve when (x, y) is
)

func init() {
	e := new(big.Int).Sub(bigP, one)
	e.Div(e, big.NewInt(3))
	for g := int64(2); ; g++ {
		b := new(big.Int).Exp(big.NewInt(g), e, bigP)
		if b.Cmp(one) != 0 {
			beta = b
			return
		}
	}
}

// curveY returns a y with y^2 = x^3+7, or nil.
func curveY(x *big.Int) *big.Int {
	g := new(big.Int).Exp(x, big.NewInt(3), bigP)
	g.Add(g, big7).Mod(g, bigP)
	return new(big.Int).ModSqrt(g, bigP)
}

// randPoint returns affine coordinates of a random curve point.
func (m *M) randPoint() (*big.Int, *big.Int) {
	for {
		x := m.randBig(bigP)
		if y := curveY(x); y != nil {
			if m.rng.Intn(2) == 0 {
				y.Sub(bigP, y)
			}
			return x, y
		}
	}
}

// smallXPoint returns a curve point with a small abscissa (x + p < 2^256 holds for x < 2^32 + 977).
func (m *M) smallXPoint() (*big.Int, *big.Int) {
	for {
		x := big.NewInt(int64(m.rng.Intn(1 << 20)))
		if y := curveY(x); y != nil {
			return x, y
		}
	}
}

func (m *M) offCurveX() *big.Int {
	for {
		x := m.randBig(bigP)
		if curveY(x) == nil {
			return x
		}
	}
}

var lamClasses = []string{"one", "two", "small", "minus_one", "random", "random", "mont_window", "limb_struct", "mont_near_const", "sq_mont_window"}

func (m *M) lambda(class string) *big.Int {
	switch class {
	case "one":
		return big.NewInt(1)
	case "two":
		return big.NewInt(2)
	case "small":
		return big.NewInt(int64(3 + m.rng.Intn(1000)))
	case "minus_one":
		return new(big.Int).Sub(bigP, one)
	case "sq_mont_window": // Z such that Z^2 (the first thing the doubling computes) has Montgomery limbs in a window
		for {
			w, _ := m.window()
			v := mulmod(new(big.Int).Mod(w, bigP), rInvP, bigP)
			if l := new(big.Int).ModSqrt(v, bigP); l != nil && l.Sign() != 0 {
				return l
			}
		}
	case "mont_near_const": // Z whose Montgomery-form limbs are those of 1 (or 0, -1) with a bit or a limb changed
		for {
			if l := mulmod(new(big.Int).Mod(m.nearMontConst(bigP), bigP), rInvP, bigP); l.Sign() != 0 {
				return l
			}
		}
	case "limb_struct": // Z whose Montgomery-form limbs are structured per 64-bit / 32-bit unit
		for {
			if l := mulmod(new(big.Int).Mod(m.limbStruct(), bigP), rInvP, bigP); l.Sign() != 0 {
				return l
			}
		}
	case "mont_window": // Z whose Montgomery-form limbs lie in a boundary window
		for {
			w, _ := m.window()
			if l := mulmod(w, rInvP, bigP); l.Sign() != 0 {
				return l
			}
		}
	default:
		for {
			l := m.randBig(bigP)
			if l.Sign() != 0 {
				return l
			}
		}
	}
}

func mulmod(a, b, mod *big.Int) *big.Int {
	t := new(big.Int).Mul(a, b)
	return t.Mod(t, mod)
}

// putPoint sets E[r] to the affine point (x, y) in a projective representation of the given class.
// With the accessor: (x lam : y lam : lam).  Without: DecodeCoordinates (Z = 1), then the operations
// themselves create other representations.
func (m *M) putPoint(r int, x, y *big.Int, lamClass string) {
	if m.raw {
		l := m.lambda(lamClass)
		m.class("rep:" + lamClass)
		m.ESetRaw(r, mulmod(x, l, bigP), mulmod(y, l, bigP), l)
		return
	}
	m.class("rep:decoded")
	m.EDecodeCoords(r, be32(x), be32(y))
}

func (m *M) anyLam() string { return lamClasses[m.rng.Intn(len(lamClasses))] }

// putIdentity sets E[r] to the identity in one of its representations.
func (m *M) putIdentity(r int, kind int) {
	switch {
	case kind == 1 && m.raw:
		m.class("rep:identity(0:Y:0)")
		m.ESetRaw(r, big.NewInt(0), m.lambda("random"), big.NewInt(0))
	case kind == 2:
		// identity as left behind by the arithmetic itself: P - P
		m.class("rep:identity_from_cancel")
		x, y := m.randPoint()
		m.putPoint(r, x, y, m.anyLam())
		m.ESub(r, r)
	case kind == 3:
		m.class("rep:identity_from_decode")
		m.EDecodeForm(r, "any", []byte{0})
	default:
		m.class("rep:identity_canonical")
		m.EIdentity(r)
	}
}

// ---------------------------------------------------------------- scalar classes

var scalarClasses = []string{"zero", "one", "two", "three", "minus_one", "minus_two", "half_up", "half_down",
	"pow2", "pow2_255", "top_bit_set", "sparse", "dense", "limb_pattern", "near_n", "small", "random", "random",
	"word_boundary", "word_structure", "mont_window", "mont_near_const", "curve_constant"}

// constants of the curve that implementations special-case: the cube roots of unity mod n of the GLV endomorphism
// (lambda, lambda^2 = -lambda - 1) and their neighbours / negatives, (n-1)/2 .. , the inverse of 2 and of 3
var glvLambda, _ = new(big.Int).SetString("5363ad4cc05c30e0a5261c028812645a122e22ea20816678df02967c1b23bd72", 16)

func (m *M) scalarOf(class string) *big.Int {
	switch class {
	case "curve_constant":
		l2 := new(big.Int).Sub(bigN, new(big.Int).Add(glvLambda, one))
		c := []*big.Int{glvLambda, l2, new(big.Int).Sub(bigN, glvLambda), new(big.Int).Sub(bigN, l2),
			new(big.Int).Add(glvLambda, one), new(big.Int).Sub(glvLambda, one),
			new(big.Int).ModInverse(two, bigN), new(big.Int).ModInverse(big.NewInt(3), bigN)}
		k := m.rng.Intn(len(c) + 2)
		if k >= len(c) {
			k -= len(c) // lambda and lambda^2 twice as often
		}
		return new(big.Int).Set(c[k])
	case "zero":
		return big.NewInt(0)
	case "one":
		return big.NewInt(1)
	case "two":
		return big.NewInt(2)
	case "three":
		return big.NewInt(3)
	case "minus_one":
		return new(big.Int).Sub(bigN, one)
	case "minus_two":
		return new(big.Int).Sub(bigN, two)
	case "half_up":
		t := new(big.Int).Add(bigN, one)
		return t.Rsh(t, 1)
	case "half_down":
		t := new(big.Int).Sub(bigN, one)
		return t.Rsh(t, 1)
	case "pow2":
		return new(big.Int).Lsh(one, uint(m.rng.Intn(256)))
	case "pow2_255":
		return new(big.Int).Lsh(one, 255)
	case "top_bit_set":
		for {
			v := m.randBig(bigN)
			v.SetBit(v, 255, 1)
			if v.Cmp(bigN) < 0 {
				return v
			}
		}
	case "sparse":
		v := new(big.Int)
		for i := 0; i < 1+m.rng.Intn(4); i++ {
			v.SetBit(v, m.rng.Intn(256), 1)
		}
		return v.Mod(v, bigN)
	case "dense":
		v := new(big.Int).Sub(bigR, one)
		for i := 0; i < 1+m.rng.Intn(4); i++ {
			v.SetBit(v, m.rng.Intn(256), 0)
		}
		return v.Mod(v, bigN)
	case "limb_pattern":
		v := new(big.Int)
		pats := []uint64{0, 1, 1 << 63, ^uint64(0)}
		for i := 0; i < 4; i++ {
			v.Lsh(v, 64).Or(v, new(big.Int).SetUint64(pats[m.rng.Intn(4)]))
		}
		return v.Mod(v, bigN)
	case "near_n":
		return new(big.Int).Sub(bigN, big.NewInt(int64(1+m.rng.Intn(5))))
	case "small":
		return big.NewInt(int64(m.rng.Intn(1 << 16)))
	case "word_boundary", "word_structure":
		v, _ := m.wordScalar()
		return v
	case "mont_window": // the stored (Montgomery) limbs lie in a boundary window
		w, _ := m.window()
		return mulmod(new(big.Int).Mod(w, bigN), rInvN, bigN)
	case "mont_near_const": // the stored limbs are those of 0, 1 or -1 with one or two bits / one limb changed
		return mulmod(new(big.Int).Mod(m.nearMontConst(bigN), bigN), rInvN, bigN)
	default:
		return m.randBig(bigN)
	}
}

func (m *M) anyScalarClass() string { return scalarClasses[m.rng.Intn(len(scalarClasses))] }

// putScalar sets S[r] to v; by the accessor-free route (Montgomery limbs are an exported field).
func (m *M) putScalar(r int, class string) *big.Int {
	v := m.scalarOf(class)
	m.class("scalar:" + class)
	m.SSetInt(r, v)
	return v
}

// ---------------------------------------------------------------- boundary classes of coordinates

var (
	cbrtExp = func() *big.Int { e := new(big.Int).Add(bigP, two); return e.Div(e, big.NewInt(9)) }() // p = 7 mod 9
	rInvP   = new(big.Int).ModInverse(bigR, bigP)
	rInvN   = new(big.Int).ModInverse(bigR, bigN)
)

// cbrt returns a cube root of a mod p, or nil.
func cbrt(a *big.Int) *big.Int {
	r := new(big.Int).Exp(a, cbrtExp, bigP)
	if new(big.Int).Exp(r, big.NewInt(3), bigP).Cmp(new(big.Int).Mod(a, bigP)) == 0 {
		return r
	}
	return nil
}

// pointWithY returns a curve point with the given ordinate, or nil: x = cbrt(y^2 - 7).
func pointWithY(y *big.Int) (*big.Int, *big.Int) {
	t := mulmod(y, y, bigP)
	t.Sub(t, big7).Mod(t, bigP)
	if x := cbrt(t); x != nil {
		return x, new(big.Int).Set(y)
	}
	return nil, nil
}

// limbStruct returns a 256-bit value whose 64-bit limbs are independently empty / one bit / a full or
// empty 32-bit half / all ones -- what truncation and limb-wise short-cut slips react to.
func (m *M) limbStruct() *big.Int {
	pats := []uint64{0, 0, 1, 1 << 32, 1 << 63, 0xffffffff00000000, 0x00000000ffffffff, ^uint64(0), uint64(m.rng.Uint32()) << 32}
	t := new(big.Int)
	if m.rng.Intn(7) == 0 { // every limb one of TWO values, 0 and w: what an OR / AND / XOR over the limbs collapses to w
		w := []uint64{1, 1 << 63, ^uint64(0), 1 << 32, 1 << 31, 0x8000000000000001, m.rng.Uint64()}[m.rng.Intn(7)]
		mask := 1 + m.rng.Intn(15)
		for i := 3; i >= 0; i-- {
			t.Lsh(t, 64)
			if mask>>uint(i)&1 == 1 {
				t.Or(t, new(big.Int).SetUint64(w))
			}
		}
		return t
	}
	if m.rng.Intn(3) == 0 { // limbs RELATED to each other: what a slipped operator in an OR / XOR / AND reduction over the limbs confuses
		a, b := m.rng.Uint64(), m.rng.Uint64()
		switch m.rng.Intn(3) {
		case 0:
			a, b = uint64(m.rng.Uint32()), uint64(m.rng.Uint32())<<32
		case 1: // sparse: one or two bits (a difference of that shape is the same as a bit pattern and as a number)
			a = uint64(1) << uint(m.rng.Intn(64))
			b = uint64(1) << uint(m.rng.Intn(64))
			if m.rng.Intn(2) == 0 {
				a |= uint64(1) << uint(m.rng.Intn(64))
			}
		}
		var l [4]uint64
		switch m.rng.Intn(4) {
		case 0, 1: // limb k combines the limbs below it, the limbs above are zero
			k := 1 + m.rng.Intn(3)
			l[0] = a
			if k >= 2 {
				l[1] = b
			}
			if k == 3 {
				l[2] = []uint64{0, a, a ^ b, m.rng.Uint64()}[m.rng.Intn(4)]
			}
			var or, xor, sum uint64
			for i := 0; i < k; i++ {
				or, xor, sum = or|l[i], xor^l[i], sum+l[i]
			}
			l[k] = []uint64{or, or, xor, sum, ^or}[m.rng.Intn(5)]
		case 2: // the two halves combine to the same word
			l[0], l[1] = a, b
			l[2] = a | b
			l[3] = []uint64{0, a, b, a & b, a | b}[m.rng.Intn(5)]
			if m.rng.Intn(2) == 0 {
				l[2], l[3] = a^b, 0
			}
		default:
			opts := []uint64{0, 0, a, b, a | b, a ^ b, a & b, ^a, a + b}
			l = [4]uint64{a, b, opts[m.rng.Intn(len(opts))], opts[m.rng.Intn(len(opts))]}
			m.rng.Shuffle(4, func(i, j int) { l[i], l[j] = l[j], l[i] })
		}
		if m.rng.Intn(4) == 0 { // the same, read from the top limb down
			l[0], l[1], l[2], l[3] = l[3], l[2], l[1], l[0]
		}
		for i := 3; i >= 0; i-- {
			t.Lsh(t, 64).Or(t, new(big.Int).SetUint64(l[i]))
		}
		if t.Sign() == 0 {
			t.SetUint64(a | 1)
		}
		return t
	}
	if m.rng.Intn(4) == 0 { // exactly one non-zero limb
		w := pats[2+m.rng.Intn(len(pats)-2)]
		if m.rng.Intn(2) == 0 {
			w = m.rng.Uint64() | 1
		}
		return t.Lsh(new(big.Int).SetUint64(w), uint(64*m.rng.Intn(4)))
	}
	for i := 0; i < 4; i++ {
		t.Lsh(t, 64).Or(t, new(big.Int).SetUint64(pats[m.rng.Intn(len(pats))]))
	}
	if t.Sign() == 0 {
		t.SetUint64(1 << 32)
	}
	return t
}

// nearMontConst returns a 256-bit value that is the Montgomery form of 0, 1 or -1 (for the given modulus) with one
// or two bits flipped, one limb incremented, zeroed or replaced: what limb-wise "is it 1 / 0 / equal" tests react to.
func (m *M) nearMontConst(mod *big.Int) *big.Int {
	rm := new(big.Int).Mod(bigR, mod)
	base := []*big.Int{big.NewInt(0), rm, rm, new(big.Int).Sub(mod, rm)}[m.rng.Intn(4)]
	w := new(big.Int).Set(base)
	switch m.rng.Intn(6) {
	case 4, 5: // one whole 64-bit limb replaced by a small or random word
		sh := uint(64 * m.rng.Intn(4))
		mask := new(big.Int).Lsh(new(big.Int).SetUint64(^uint64(0)), sh)
		w.AndNot(w, mask)
		v := uint64(1 + m.rng.Intn(16))
		if m.rng.Intn(2) == 0 {
			v = m.rng.Uint64()
		}
		w.Or(w, new(big.Int).Lsh(new(big.Int).SetUint64(v), sh))
	case 0:
		i := m.rng.Intn(256)
		w.SetBit(w, i, w.Bit(i)^1)
	case 1:
		i, j := m.rng.Intn(256), m.rng.Intn(256)
		w.SetBit(w, i, w.Bit(i)^1)
		w.SetBit(w, j, w.Bit(j)^1)
	case 2: // one whole 64-bit limb replaced by a small or random word
		sh := uint(64 * m.rng.Intn(4))
		mask := new(big.Int).Lsh(new(big.Int).SetUint64(^uint64(0)), sh)
		w.AndNot(w, mask)
		v := uint64(m.rng.Intn(16))
		if m.rng.Intn(2) == 0 {
			v = m.rng.Uint64()
		}
		w.Or(w, new(big.Int).Lsh(new(big.Int).SetUint64(v), sh))
	default:
		sh := uint(64 * m.rng.Intn(4))
		w.Add(w, new(big.Int).Lsh(one, sh))
	}
	return w.Mod(w, bigR)
}

// limbwiseNeighbour returns a 256-bit value whose 64-bit limbs are, independently, the modulus' limb, that limb
// -1 / +1, 0 or all ones: what lexicographic limb-by-limb comparisons with the modulus ("is it < n?") get wrong
// when a level of the comparison is mis-nested.  625 values per modulus.
func (m *M) limbwiseNeighbour(mod *big.Int) *big.Int {
	ml := bigToLimbs(mod)
	t := new(big.Int)
	for i := 3; i >= 0; i-- {
		var w uint64
		switch m.rng.Intn(6) {
		case 0:
			w = ml[i] - 1
		case 1:
			w = ml[i] + 1
		case 2:
			w = 0
		case 3:
			w = ^uint64(0)
		default:
			w = ml[i]
		}
		t.Lsh(t, 64).Or(t, new(big.Int).SetUint64(w))
	}
	return t
}

// highLimbsOfP returns a value below p that shares p's upper limbs: the low 1..3 limbs are small or random.
func (m *M) highLimbsOfP() *big.Int {
	k := uint(64 * (1 + m.rng.Intn(3)))
	hi := new(big.Int).Rsh(bigP, k)
	hi.Lsh(hi, k)
	var lo *big.Int
	if m.rng.Intn(2) == 0 {
		lo = big.NewInt(int64(m.rng.Intn(1 << 20)))
	} else {
		lo = m.randBig(new(big.Int).Lsh(one, k))
	}
	t := hi.Add(hi, lo)
	for t.Cmp(bigP) >= 0 {
		t.Sub(t, new(big.Int).Lsh(one, k-1))
	}
	return t
}

// structuredPoint returns a curve point whose canonical x (or y) is limb-structured or shares p's high limbs.
func (m *M) structuredPoint() (*big.Int, *big.Int, string) {
	for {
		var v *big.Int
		cls := ""
		if m.rng.Intn(2) == 0 {
			v, cls = m.highLimbsOfP(), "high_limbs_of_p"
		} else {
			v, cls = new(big.Int).Mod(m.limbStruct(), bigP), "limb_struct"
		}
		if m.rng.Intn(3) == 0 {
			// not a coordinate but what the code first COMPUTES from the coordinates has the structured stored form:
			// y^2, x^2, x^3 or x^3 + 7 (the final subtraction / carry of that product is where the structure bites)
			if m.rng.Intn(2) == 0 {
				v, cls = m.window()
				v.Mod(v, bigP)
			}
			t := mulmod(v, rInvP, bigP) // the value whose stored form is v
			switch m.rng.Intn(4) {
			case 0:
				if y := new(big.Int).ModSqrt(t, bigP); y != nil {
					if x, yy := pointWithY(y); x != nil {
						if m.rng.Intn(2) == 0 {
							yy = new(big.Int).Sub(bigP, yy)
						}
						return x, yy, "y^2_stored_" + cls
					}
				}
			case 1:
				if x := new(big.Int).ModSqrt(t, bigP); x != nil {
					if y := curveY(x); y != nil {
						return x, y, "x^2_stored_" + cls
					}
				}
			case 2:
				if x := cbrt(t); x != nil {
					if y := curveY(x); y != nil {
						return x, y, "x^3_stored_" + cls
					}
				}
			default:
				if x := cbrt(new(big.Int).Mod(new(big.Int).Sub(t, big7), bigP)); x != nil {
					if y := curveY(x); y != nil {
						return x, y, "x^3+7_stored_" + cls
					}
				}
			}
			continue
		}
		if m.rng.Intn(3) != 0 {
			if y := curveY(v); y != nil {
				return v, y, "x_" + cls
			}
		} else if x, y := pointWithY(v); x != nil {
			return x, y, "y_" + cls
		}
	}
}

// resultTarget returns a STORED-form value for an operation's result to land on: a third of the time a value that has
// two representations below 2^256 (v and v + modulus: what the final conditional subtraction must tell apart), a
// third a boundary window, a third structured limbs.
func (m *M) resultTarget(mod *big.Int) (*big.Int, string) {
	switch m.rng.Intn(3) {
	case 0:
		c := new(big.Int).Sub(bigR, mod)
		if m.rng.Intn(2) == 0 {
			return m.randBig(c), "two_representations"
		}
		return m.randBig(new(big.Int).Lsh(one, uint(1+m.rng.Intn(c.BitLen())))), "two_representations"
	case 1:
		t, cls := m.window()
		return t.Mod(t, mod), cls
	default:
		return new(big.Int).Mod(m.limbStruct(), mod), "limb_struct"
	}
}

// window returns a value of one of the boundary windows of a 256-bit representation: next to 0, 2^255,
// (p+1)/2, p, 2^256 - 2^192 (top limb all ones), 2^192, 2^128, 2^64.
func (m *M) window() (*big.Int, string) { return m.windowKind(-1) }

const nWindowKinds = 17

// windowKind: kind < 0 draws the kind; otherwise that kind (the systematic walks go through all of them).
func (m *M) windowKind(kind int) (*big.Int, string) {
	d := big.NewInt(int64(m.rng.Intn(1 << 20)))
	if m.rng.Intn(2) == 0 { // distances of every magnitude up to a limb and a bit: 2^1 .. 2^72, not only tiny ones
		d = m.randBig(new(big.Int).Lsh(one, uint(1+m.rng.Intn(72))))
	}
	half := new(big.Int).Rsh(new(big.Int).Add(bigP, one), 1)
	k := m.rng.Intn(nWindowKinds)
	if kind >= 0 {
		k = kind % nWindowKinds
	}
	switch k {
	case 14, 15: // p minus a power of two (any bit position), and a little around it
		t := new(big.Int).Sub(bigP, new(big.Int).Lsh(one, uint(m.rng.Intn(256))))
		if m.rng.Intn(3) == 0 {
			t.Add(t, big.NewInt(int64(m.rng.Intn(5)-2)))
		}
		return t.Mod(t, bigP), "p_minus_pow2"
	case 16: // a power of two (any bit position), and a little around it
		t := new(big.Int).Lsh(one, uint(m.rng.Intn(256)))
		if m.rng.Intn(3) == 0 {
			t.Add(t, big.NewInt(int64(m.rng.Intn(5)-2)))
		}
		return t.Mod(t, bigP), "pow2"
	case 12, 13: // next to j * 2^256 / c for the small constants of the formulas (2, 3, 4, 8, b3 = 21): where c * v wraps
		c := []int64{2, 3, 4, 8, 21, 21}[m.rng.Intn(6)]
		j := int64(1 + m.rng.Intn(int(c-1)))
		t := new(big.Int).Mul(bigR, big.NewInt(j))
		t.Div(t, big.NewInt(c))
		if m.rng.Intn(2) == 0 {
			t.Add(t, d)
		} else {
			t.Sub(t, new(big.Int).Add(d, one))
		}
		return t.Mod(t, bigR), "fraction_of_2^256"
	case 9, 10: // the high limbs of p, the low 1..3 limbs anything below p's: comparison chains that short-cut on limbs
		k := uint(64 * (1 + m.rng.Intn(3)))
		hi := new(big.Int).Rsh(bigP, k)
		hi.Lsh(hi, k)
		var lo *big.Int
		if m.rng.Intn(2) == 0 {
			lo = big.NewInt(int64(m.rng.Intn(1 << 20)))
		} else {
			lo = m.randBig(new(big.Int).Lsh(one, k))
		}
		t := hi.Add(hi, lo)
		for t.Cmp(bigP) >= 0 {
			t.Sub(t, new(big.Int).Lsh(one, k-1))
		}
		return t, "high_limbs_of_p"
	case 11: // every 64-bit limb independently empty / one bit / a full or empty 32-bit half: truncation slips
		pats := []uint64{0, 1, 1 << 32, 1 << 63, 0xffffffff00000000, 0x00000000ffffffff, ^uint64(0), uint64(m.rng.Uint32()) << 32}
		t := new(big.Int)
		for i := 0; i < 4; i++ {
			t.Lsh(t, 64).Or(t, new(big.Int).SetUint64(pats[m.rng.Intn(len(pats))]))
		}
		if t.Sign() == 0 {
			t.SetUint64(1 << 32)
		}
		return t, "limb_halves"
	case 0:
		return d, "lo"
	case 1:
		return new(big.Int).Sub(new(big.Int).Lsh(one, 255), new(big.Int).Add(d, one)), "below_2^255"
	case 2:
		return new(big.Int).Add(new(big.Int).Lsh(one, 255), d), "above_2^255"
	case 3:
		return new(big.Int).Add(half, d), "above_p/2"
	case 4:
		return new(big.Int).Sub(half, new(big.Int).Add(d, one)), "below_p/2"
	case 5:
		return new(big.Int).Sub(bigP, new(big.Int).Add(d, one)), "below_p"
	case 6:
		t := new(big.Int).Sub(bigR, new(big.Int).Lsh(one, 192))
		return t.Add(t, m.randBig(new(big.Int).Lsh(one, 190))), "top_limb_ones"
	case 7:
		return new(big.Int).Add(new(big.Int).Lsh(one, uint(64*(1+m.rng.Intn(3)))), d), "above_word_boundary"
	default:
		t := new(big.Int).Lsh(one, uint(64*(1+m.rng.Intn(3))))
		return t.Sub(t, new(big.Int).Add(d, one)), "below_word_boundary"
	}
}

// boundaryPoint returns a curve point one of whose coordinates -- as a canonical integer or in the
// Montgomery domain (v * 2^256 mod p, what the limbs hold), or the Montgomery form of y^2 -- lies in a
// boundary window.  Carry / final-subtraction slips in hand-written limb code live in such windows.
func (m *M) boundaryPoint() (*big.Int, *big.Int, string) { return m.boundaryPointAt(-1, -1) }

// boundaryPointSys walks through every (window kind, coordinate role) pair in turn, one per call.
func (m *M) boundaryPointSys() (*big.Int, *big.Int, string) {
	m.bIdx++
	return m.boundaryPointAt(m.bIdx%nWindowKinds, (m.bIdx/nWindowKinds)%5)
}

func (m *M) boundaryPointAt(kind, role int) (*big.Int, *big.Int, string) {
	for try := 0; ; try++ {
		if try > 400 { // no point of that kind / role (e.g. neither root exists in a narrow window): any
			kind, role = -1, -1
		}
		w, wc := m.windowKind(kind)
		w.Mod(w, bigP)
		r := m.rng.Intn(5)
		if role >= 0 {
			r = role
		}
		switch r {
		case 0: // canonical x in the window
			if y := curveY(w); y != nil {
				return w, y, "x_canon_" + wc
			}
		case 1: // Montgomery form of x in the window
			x := mulmod(w, rInvP, bigP)
			if y := curveY(x); y != nil {
				return x, y, "x_mont_" + wc
			}
		case 2: // canonical y in the window
			if x, y := pointWithY(w); x != nil {
				return x, y, "y_canon_" + wc
			}
		case 3: // Montgomery form of y in the window
			if x, y := pointWithY(mulmod(w, rInvP, bigP)); x != nil {
				return x, y, "y_mont_" + wc
			}
		case 4: // Montgomery form of y^2 in the window
			y2 := mulmod(w, rInvP, bigP)
			if y := new(big.Int).ModSqrt(y2, bigP); y != nil {
				if x, yy := pointWithY(y); x != nil {
					return x, yy, "y2_mont_" + wc
				}
			}
		}
	}
}

// wordScalar returns scalars structured by 64-bit words: powers of two at and around word boundaries,
// and values whose words are independently empty, short, or full.
func (m *M) wordScalar() (*big.Int, string) {
	switch m.rng.Intn(3) {
	case 0:
		e := 64*(1+m.rng.Intn(3)) + m.rng.Intn(3) - 1 // 63,64,65,127,128,129,191,192,193
		v := new(big.Int).Lsh(one, uint(e))
		if m.rng.Intn(2) == 0 {
			v.Add(v, big.NewInt(int64(m.rng.Intn(8))))
		}
		return v, "word_boundary_pow2"
	case 1:
		v := new(big.Int).Lsh(one, uint(m.rng.Intn(256)))
		v.Add(v, new(big.Int).Lsh(one, uint(m.rng.Intn(256))))
		v.Add(v, big.NewInt(int64(m.rng.Intn(4))))
		return v.Mod(v, bigN), "two_bits"
	default:
		v := new(big.Int)
		top := m.rng.Intn(4)
		for i := 3; i >= 0; i-- {
			var w uint64
			if i <= top {
				switch m.rng.Intn(5) {
				case 0:
					w = 0
				case 1:
					w = uint64(1 + m.rng.Intn(255))
				case 2:
					w = 1 << uint(m.rng.Intn(64))
				case 3:
					w = ^uint64(0)
				default:
					w = m.rng.Uint64()
				}
				if i == top && w == 0 {
					w = uint64(1) << uint(m.rng.Intn(64))
				}
			}
			v.Lsh(v, 64).Or(v, new(big.Int).SetUint64(w))
		}
		return v.Mod(v, bigN), "word_structure"
	}
}
