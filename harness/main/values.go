package main

// Operand classes.  The classes are the finite case analysis the specification defines (DESIGN 2.3);
// here they are concretised into 256-bit witnesses.  Concretisation is untrusted: the validator
// recomputes everything it needs from the logged bytes.

import (
	"math/big"
)

var (
	one  = big.NewInt(1)
	two  = big.NewInt(2)
	beta *big.Int // a primitive cube root of unity mod p: (beta x, y) is on the curve when (x, y) is
)

func init() {
	e := new(big.Int).Sub(bigP, one)
	e.Div(e, big.NewInt(3))
	for g := int64(2); ; g++ {
		b := new(big.Int).Exp(big.NewInt(g), e, bigP)
		if b.Cmp(one) != 0 {
			beta = b
			return
		}
	}
}

// curveY returns a y with y^2 = x^3+7, or nil.
func curveY(x *big.Int) *big.Int {
	g := new(big.Int).Exp(x, big.NewInt(3), bigP)
	g.Add(g, big7).Mod(g, bigP)
	return new(big.Int).ModSqrt(g, bigP)
}

// randPoint returns affine coordinates of a random curve point.
func (m *M) randPoint() (*big.Int, *big.Int) {
	for {
		x := m.randBig(bigP)
		if y := curveY(x); y != nil {
			if m.rng.Intn(2) == 0 {
				y.Sub(bigP, y)
			}
			return x, y
		}
	}
}

// smallXPoint returns a curve point with a small abscissa (x + p < 2^256 holds for x < 2^32 + 977).
func (m *M) smallXPoint() (*big.Int, *big.Int) {
	for {
		x := big.NewInt(int64(m.rng.Intn(1 << 20)))
		if y := curveY(x); y != nil {
			return x, y
		}
	}
}

func (m *M) offCurveX() *big.Int {
	for {
		x := m.randBig(bigP)
		if curveY(x) == nil {
			return x
		}
	}
}

var lamClasses = []string{"one", "two", "small", "minus_one", "random", "random"}

func (m *M) lambda(class string) *big.Int {
	switch class {
	case "one":
		return big.NewInt(1)
	case "two":
		return big.NewInt(2)
	case "small":
		return big.NewInt(int64(3 + m.rng.Intn(1000)))
	case "minus_one":
		return new(big.Int).Sub(bigP, one)
	default:
		for {
			l := m.randBig(bigP)
			if l.Sign() != 0 {
				return l
			}
		}
	}
}

func mulmod(a, b, mod *big.Int) *big.Int {
	t := new(big.Int).Mul(a, b)
	return t.Mod(t, mod)
}

// putPoint sets E[r] to the affine point (x, y) in a projective representation of the given class.
// With the accessor: (x lam : y lam : lam).  Without: DecodeCoordinates (Z = 1), then the operations
// themselves create other representations.
func (m *M) putPoint(r int, x, y *big.Int, lamClass string) {
	if m.raw {
		l := m.lambda(lamClass)
		m.class("rep:" + lamClass)
		m.ESetRaw(r, mulmod(x, l, bigP), mulmod(y, l, bigP), l)
		return
	}
	m.class("rep:decoded")
	m.EDecodeCoords(r, be32(x), be32(y))
}

func (m *M) anyLam() string { return lamClasses[m.rng.Intn(len(lamClasses))] }

// putIdentity sets E[r] to the identity in one of its representations.
func (m *M) putIdentity(r int, kind int) {
	switch {
	case kind == 1 && m.raw:
		m.class("rep:identity(0:Y:0)")
		m.ESetRaw(r, big.NewInt(0), m.lambda("random"), big.NewInt(0))
	case kind == 2:
		// identity as left behind by the arithmetic itself: P - P
		m.class("rep:identity_from_cancel")
		x, y := m.randPoint()
		m.putPoint(r, x, y, m.anyLam())
		m.ESub(r, r)
	case kind == 3:
		m.class("rep:identity_from_decode")
		m.EDecodeForm(r, "any", []byte{0})
	default:
		m.class("rep:identity_canonical")
		m.EIdentity(r)
	}
}

// ---------------------------------------------------------------- scalar classes

var scalarClasses = []string{"zero", "one", "two", "three", "minus_one", "minus_two", "half_up", "half_down",
	"pow2", "pow2_255", "top_bit_set", "sparse", "dense", "limb_pattern", "near_n", "small", "random", "random"}

func (m *M) scalarOf(class string) *big.Int {
	switch class {
	case "zero":
		return big.NewInt(0)
	case "one":
		return big.NewInt(1)
	case "two":
		return big.NewInt(2)
	case "three":
		return big.NewInt(3)
	case "minus_one":
		return new(big.Int).Sub(bigN, one)
	case "minus_two":
		return new(big.Int).Sub(bigN, two)
	case "half_up":
		t := new(big.Int).Add(bigN, one)
		return t.Rsh(t, 1)
	case "half_down":
		t := new(big.Int).Sub(bigN, one)
		return t.Rsh(t, 1)
	case "pow2":
		return new(big.Int).Lsh(one, uint(m.rng.Intn(256)))
	case "pow2_255":
		return new(big.Int).Lsh(one, 255)
	case "top_bit_set":
		for {
			v := m.randBig(bigN)
			v.SetBit(v, 255, 1)
			if v.Cmp(bigN) < 0 {
				return v
			}
		}
	case "sparse":
		v := new(big.Int)
		for i := 0; i < 1+m.rng.Intn(4); i++ {
			v.SetBit(v, m.rng.Intn(256), 1)
		}
		return v.Mod(v, bigN)
	case "dense":
		v := new(big.Int).Sub(bigR, one)
		for i := 0; i < 1+m.rng.Intn(4); i++ {
			v.SetBit(v, m.rng.Intn(256), 0)
		}
		return v.Mod(v, bigN)
	case "limb_pattern":
		v := new(big.Int)
		pats := []uint64{0, 1, 1 << 63, ^uint64(0)}
		for i := 0; i < 4; i++ {
			v.Lsh(v, 64).Or(v, new(big.Int).SetUint64(pats[m.rng.Intn(4)]))
		}
		return v.Mod(v, bigN)
	case "near_n":
		return new(big.Int).Sub(bigN, big.NewInt(int64(1+m.rng.Intn(5))))
	case "small":
		return big.NewInt(int64(m.rng.Intn(1 << 16)))
	default:
		return m.randBig(bigN)
	}
}

func (m *M) anyScalarClass() string { return scalarClasses[m.rng.Intn(len(scalarClasses))] }

// putScalar sets S[r] to v; by the accessor-free route (Montgomery limbs are an exported field).
func (m *M) putScalar(r int, class string) *big.Int {
	v := m.scalarOf(class)
	m.class("scalar:" + class)
	m.SSetInt(r, v)
	return v
}
