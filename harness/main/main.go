package main

import (
	"flag"
	"fmt"
	"os"
)

func main() {
	prop := flag.String("prop", "", "property id (C01..C19)")
	out := flag.String("out", "", "output directory for trace shards")
	seed := flag.Int64("seed", 1, "seed")
	tier := flag.String("tier", "quick", "quick | thorough")
	shards := flag.Int("shards", 16, "number of trace files to spread histories over")
	scale := flag.Float64("scale", 1.0, "budget multiplier")
	flag.Parse()
	if *out == "" || *prop == "" {
		fmt.Fprintln(os.Stderr, "usage: harness -prop Cxx -out DIR [-seed N] [-tier quick|thorough]")
		os.Exit(2)
	}
	thorough := *tier == "thorough"
	pick := func(q, t int) int {
		v := q
		if thorough {
			v = t
		}
		return int(float64(v) * *scale)
	}
	m := newMachine(*out, *prop, *seed, 4, 3)
	total := 0
	switch *prop {
	case "C01":
		total = pick(24, 256)*8 + pick(60, 2000)*5
	case "C02":
		total = pick(800, 40000)
	case "C03":
		total = pick(2500, 60000)
	case "C04":
		total = pick(700, 20000)
	case "C05":
		total = pick(600, 20000)
	case "C06":
		total = pick(3000, 100000)
	case "C07":
		total = pick(900, 20000)
	case "C08":
		total = pick(70, 1500)
	case "C09":
		total = pick(120, 2500)
	case "C10":
		total = pick(150, 3000) * 42
	case "C13":
		total = pick(1500, 40000)
	case "C14":
		total = pick(450, 10000)
	case "C18":
		total = pick(400, 10000)
	default:
		fmt.Fprintln(os.Stderr, "harness: no trace generator for", *prop)
		os.Exit(2)
	}
	m.perFile = total / *shards
	if m.perFile < 10 {
		m.perFile = 10
	}
	switch *prop {
	case "C01":
		// full-width multiplications dominate the validator's time: one per shard first
		m.perFile = 1
		genC01(m, pick(24, 256), 0)
		m.perFile = pick(60, 2000) * 5 / *shards
		genC01(m, 0, pick(60, 2000))
	case "C02":
		genC02(m, total)
	case "C03":
		genC03(m, total)
	case "C04":
		genC04(m, total)
	case "C05":
		genC05(m, total)
	case "C06":
		genC06(m, total)
	case "C07":
		genC07(m, total)
	case "C08":
		genC08(m, total)
	case "C09":
		genC09(m, total)
	case "C10":
		genC10(m, pick(150, 3000), 40)
	case "C13":
		genC13(m, total)
	case "C14":
		genC14(m, total)
	case "C18":
		genC18(m, total)
	}
	m.close()
	fmt.Println(m.summary())
}
