package main

import (
	"flag"
	"fmt"
	"os"
)

// gen is a trace generator for one property: pick(q, t) selects the quick or thorough budget.
type gen func(m *M, pick func(q, t int) int, shards int)

var gens = map[string]gen{}

func perFile(m *M, total, shards int) {
	m.perFile = total / shards
	if m.perFile < 10 {
		m.perFile = 10
	}
}

func init() {
	gens["C01"] = func(m *M, pick func(q, t int) int, shards int) {
		// full-width multiplications dominate the validator's time: one per trace file
		m.perFile = 1
		genC01(m, pick(48, 256), 0)
		perFile(m, pick(60, 2000)*5, shards)
		genC01(m, 0, pick(60, 2000))
	}
	simple := func(f func(*M, int), q, t int) gen {
		return func(m *M, pick func(q, t int) int, shards int) {
			total := pick(q, t)
			perFile(m, total, shards)
			f(m, total)
		}
	}
	gens["C02"] = simple(genC02, 1600, 40000)
	gens["C03"] = simple(genC03, 2500, 60000)
	gens["C04"] = simple(genC04, 1200, 20000)
	gens["C05"] = simple(genC05, 1700, 20000)
	gens["C06"] = simple(genC06, 3000, 100000)
	gens["C07"] = simple(genC07, 1500, 200000)
	gens["C08"] = simple(genC08, 115, 6000)
	gens["C09"] = simple(genC09, 120, 8000)
	gens["C13"] = simple(genC13, 2500, 300000)
	gens["C14"] = simple(genC14, 900, 100000)
	gens["C15"] = simple(genC15, 600, 60000)
	gens["C18"] = simple(genC18, 800, 100000)
	gens["C10"] = func(m *M, pick func(q, t int) int, shards int) {
		perFile(m, pick(100, 1200)*42, shards)
		genC10(m, pick(100, 1200), 40)
	}
}

func main() {
	prop := flag.String("prop", "", "property id (C01..C19)")
	out := flag.String("out", "", "output directory for trace shards")
	seed := flag.Int64("seed", 1, "seed")
	tier := flag.String("tier", "quick", "quick | thorough")
	shards := flag.Int("shards", 16, "number of trace files to spread histories over")
	scale := flag.Float64("scale", 1.0, "budget multiplier")
	scenario := flag.String("scenario", "", "re-execute the calls of a recorded history (ndjson) instead of generating")
	flag.StringVar(&corpusFiles, "corpus", "", "carry-coverage corpora (bin/carrycov.py), comma-separated")
	flag.StringVar(&focus, "focus", "", "C16 generator only: restrict the concurrent call mix to the actions of this property")
	flag.Parse()
	if *out == "" || *prop == "" {
		fmt.Fprintln(os.Stderr, "usage: harness -prop Cxx -out DIR [-seed N] [-tier quick|thorough] [-scenario FILE]")
		os.Exit(2)
	}
	thorough := *tier == "thorough"
	pick := func(q, t int) int {
		v := q
		if thorough {
			v = t
		}
		v = int(float64(v) * *scale)
		if v < 1 {
			v = 1
		}
		return v
	}
	m := newMachine(*out, *prop, *seed, 4, 3)
	if thorough {
		m.giantMax = 6
	}
	if *scenario != "" {
		if err := runScenario(m, *scenario); err != nil {
			fmt.Fprintln(os.Stderr, "harness: scenario:", err)
			os.Exit(2)
		}
	} else {
		g, ok := gens[*prop]
		if !ok {
			fmt.Fprintln(os.Stderr, "harness: no trace generator for", *prop)
			os.Exit(2)
		}
		g(m, pick, *shards)
	}
	m.close()
	fmt.Println(m.summary())
}
