package main

// Carry-coverage corpus (bin/carrycov.py): inputs that drive the carry / borrow / overflow sites of the
// word-level code both ways.  They are INPUTS ONLY: each is fed to the public call that reaches the function it
// was solved for, and the recorded call is validated against the specification like any other event.

import (
	"encoding/json"
	"math/big"
	"os"
	"strings"
)

type corpusEntry struct {
	Pkg    string                     `json:"pkg"`
	Func   string                     `json:"func"`
	Inputs map[string]json.RawMessage `json:"inputs"`
	How    string                     `json:"how"`
}

var corpusFiles string // comma-separated; set by -corpus

func parseHexBig(s string) *big.Int {
	v, _ := new(big.Int).SetString(strings.TrimPrefix(s, "0x"), 16)
	if v == nil {
		return new(big.Int)
	}
	return v
}

// arr returns the 256-bit value of a four-limb input (little-endian limbs), or nil.
func (e *corpusEntry) arr(name string) *big.Int {
	raw, ok := e.Inputs[name]
	if !ok {
		return nil
	}
	var ls []string
	if json.Unmarshal(raw, &ls) != nil || len(ls) != 4 {
		return nil
	}
	v := new(big.Int)
	for i := 3; i >= 0; i-- {
		v.Lsh(v, 64).Or(v, parseHexBig(ls[i]))
	}
	return v
}

func (e *corpusEntry) word(name string) (uint64, bool) {
	raw, ok := e.Inputs[name]
	if !ok {
		return 0, false
	}
	var s string
	if json.Unmarshal(raw, &s) != nil {
		return 0, false
	}
	return parseHexBig(s).Uint64(), true
}

// wide returns the 48-byte string of a Wide48 entry, or nil.
func (e *corpusEntry) wide() []byte {
	raw, ok := e.Inputs["data"]
	if !ok {
		return nil
	}
	var h string
	if json.Unmarshal(raw, &h) != nil || len(h) != 96 {
		return nil
	}
	out := parseHexBig(h).FillBytes(make([]byte, 48))
	return out
}

// arrays returns the four-limb inputs in name order.
func (e *corpusEntry) arrays() []*big.Int {
	var out []*big.Int
	for _, n := range []string{"arg1", "arg2", "arg3", "u", "v", "x"} {
		if v := e.arr(n); v != nil {
			out = append(out, v)
		}
	}
	return out
}

func loadCorpus(pkg string) []corpusEntry {
	var out []corpusEntry
	seen := map[string]bool{}
	for _, fn := range strings.Split(corpusFiles, ",") {
		if fn == "" {
			continue
		}
		data, err := os.ReadFile(fn)
		if err != nil {
			continue
		}
		var doc struct {
			Corpus []corpusEntry `json:"corpus"`
		}
		if json.Unmarshal(data, &doc) != nil {
			continue
		}
		for _, e := range doc.Corpus {
			if e.Pkg != pkg {
				continue
			}
			k, _ := json.Marshal(e.Inputs)
			if seen[e.Func+string(k)] {
				continue
			}
			seen[e.Func+string(k)] = true
			out = append(out, e)
		}
	}
	return out
}

// corpusScalar replays the scalar-package entries that concern property prop through the public Scalar API.
// A stored (Montgomery) operand m is installed by decoding the value  m / 2^256 mod n.
func (m *M) corpusScalar(prop string) {
	entries := loadCorpus("scalar")
	if len(entries) == 0 {
		return
	}
	stored := func(v *big.Int) *big.Int { return mulmod(new(big.Int).Mod(v, bigN), rInvN, bigN) }
	n := 0
	relevant := map[string]map[string]bool{
		"C06": {"Mul": true, "Add": true, "Sub": true, "Square": true, "ToMontgomery": true},
		"C07": {"FromMontgomery": true, "ToMontgomery": true, "Reduce": true},
		"C14": {"FromMontgomery": true},
		"C13": {"Equal": true, "IsFEZero": true, "CMove": true, "Selectznz": true, "FromMontgomery": true},
	}[prop]
	for _, e := range entries {
		as := e.arrays()
		if !relevant[e.Func] || len(as) == 0 {
			continue
		}
		if e.Func != "Reduce" && !(prop == "C07" && e.Func == "ToMontgomery") { // every operand must be a valid stored value
			bad := false
			for _, a := range as {
				bad = bad || a.Cmp(bigN) >= 0
			}
			if bad {
				continue
			}
		}
		if (e.Func == "Mul" || e.Func == "Add" || e.Func == "Sub" || e.Func == "Equal" || e.Func == "CMove" || e.Func == "Selectznz") && len(as) < 2 {
			continue
		}
		if n%20 == 0 {
			m.reset()
		}
		switch prop {
		case "C06":
			switch e.Func {
			case "Mul", "Add", "Sub":
				if len(as) < 2 || as[0].Cmp(bigN) >= 0 || as[1].Cmp(bigN) >= 0 {
					continue
				}
				m.SSetInt(0, stored(as[0]))
				m.SSetInt(1, stored(as[1]))
				switch e.Func {
				case "Mul":
					m.SMul(0, 1)
				case "Add":
					m.SAdd(0, 1)
				default:
					m.SSub(0, 1)
				}
			case "Square":
				if len(as) < 1 || as[0].Cmp(bigN) >= 0 {
					continue
				}
				m.SSetInt(0, stored(as[0]))
				m.SSquare(0)
			case "ToMontgomery": // the canonical value itself; squared so that the stored form is used
				if len(as) < 1 || as[0].Cmp(bigN) >= 0 {
					continue
				}
				m.SSetInt(0, as[0])
				m.SSet(1, 0)
				m.SAdd(1, 0)
			default:
				continue
			}
		case "C07":
			switch e.Func {
			case "FromMontgomery":
				if len(as) < 1 || as[0].Cmp(bigN) >= 0 {
					continue
				}
				m.SSetInt(0, stored(as[0]))
				m.SEncode(0)
				m.SHex(0)
			case "ToMontgomery", "Reduce":
				if len(as) < 1 {
					continue
				}
				m.SDecodeForm(0, "bytes", be32(as[0]))
				m.SEncode(0)
			default:
				continue
			}
		case "C14":
			if e.Func != "FromMontgomery" || len(as) < 1 || as[0].Cmp(bigN) >= 0 {
				continue
			}
			m.SSetInt(0, stored(as[0]))
			m.SBits(0)
		case "C13":
			switch e.Func {
			case "Equal":
				if len(as) < 2 || as[0].Cmp(bigN) >= 0 || as[1].Cmp(bigN) >= 0 {
					continue
				}
				m.SSetInt(0, stored(as[0]))
				m.SSetInt(1, stored(as[1]))
				m.SEqual(0, 1)
			case "IsFEZero":
				if len(as) < 1 || as[0].Cmp(bigN) >= 0 {
					continue
				}
				m.SSetInt(0, stored(as[0]))
				m.SIsZero(0)
			case "CMove", "Selectznz":
				if len(as) < 2 || as[0].Cmp(bigN) >= 0 || as[1].Cmp(bigN) >= 0 {
					continue
				}
				c, _ := e.word("c")
				if w, ok := e.word("arg1"); ok {
					c = w
				}
				m.SSetInt(0, stored(as[0]))
				m.SSetInt(1, stored(as[1]))
				m.SCSelect(2, c, 0, 1)
			case "FromMontgomery": // LessOrEqual compares canonical values
				if len(as) < 1 || as[0].Cmp(bigN) >= 0 {
					continue
				}
				// against its neighbours: a conversion that is slightly off flips exactly these comparisons
				v := stored(as[0])
				m.SSetInt(0, v)
				m.SSetInt(1, new(big.Int).Mod(new(big.Int).Sub(v, one), bigN))
				m.SLessOrEqual(0, 1)
				m.SLessOrEqual(1, 0)
				m.SSetInt(1, new(big.Int).Mod(new(big.Int).Add(v, one), bigN))
				m.SLessOrEqual(0, 1)
				m.SLessOrEqual(1, 0)
				m.SLessOrEqual(0, 0)
			default:
				continue
			}
		default:
			return
		}
		n++
		m.class("corpus:carry_sites")
	}
}

// encWithStoredX / encWithStoredY: a curve point (affine, so stored with Z = 1) one of whose STORED coordinates is the
// given four-limb pattern, or nil when no point has that coordinate.
func encWithStoredX(storedX *big.Int) []byte {
	if storedX.Cmp(bigP) >= 0 {
		return nil
	}
	x := mulmod(storedX, rInvP, bigP)
	g := new(big.Int).Exp(x, big.NewInt(3), bigP)
	g.Add(g, big7).Mod(g, bigP)
	y := new(big.Int).ModSqrt(g, bigP)
	if y == nil {
		return nil
	}
	return append([]byte{byte(2 + y.Bit(0))}, be32(x)...)
}

func encWithStoredY(storedY *big.Int) []byte {
	if storedY.Cmp(bigP) >= 0 {
		return nil
	}
	y := mulmod(storedY, rInvP, bigP)
	c := mulmod(y, y, bigP)
	c.Sub(c, big7).Mod(c, bigP)
	x := cbrt(c)
	if x == nil {
		return nil
	}
	return append(append([]byte{4}, be32(x)...), be32(y)...)
}

// corpusGroup: the field-package entries, reached through the group law -- the first products of the addition and
// doubling formulas take the operands' stored coordinates as they are.
func (m *M) corpusGroup() {
	n := 0
	for _, e := range loadCorpus("field") {
		as := e.arrays()
		var pts [][]byte
		switch e.Func {
		case "Mul":
			if len(as) < 2 {
				continue
			}
			for _, mk := range []func(*big.Int) []byte{encWithStoredX, encWithStoredY} {
				if p0, p1 := mk(as[0]), mk(as[1]); p0 != nil && p1 != nil {
					pts = [][]byte{p0, p1}
					break
				}
			}
		case "Square", "Add", "Sub":
			if len(as) < 1 {
				continue
			}
			if p0 := encWithStoredY(as[0]); p0 != nil {
				pts = [][]byte{p0}
			} else if p0 := encWithStoredX(as[0]); p0 != nil {
				pts = [][]byte{p0}
			}
		}
		if pts == nil {
			continue
		}
		if n%12 == 0 {
			m.reset()
		}
		n++
		m.class("corpus:carry_sites")
		m.EDecodeForm(0, "any", pts[0])
		if len(pts) == 2 {
			m.EDecodeForm(1, "any", pts[1])
			m.ESet(2, 0)
			m.EAdd(0, 1)
			m.ESub(2, 1)
		} else {
			m.ESet(2, 0)
			m.EDouble(0)
			m.EAdd(2, 2)
		}
	}
}

// rawWithStored: a projective representation (X, Y, Z), Z != 1, of a curve point whose STORED X is a and whose
// stored 1/Z is b -- the affine conversion of the encoders multiplies exactly these two.  nil if there is none.
func rawWithStored(a, b *big.Int) (X, Y, Z *big.Int) {
	if a.Cmp(bigP) >= 0 || b.Cmp(bigP) >= 0 || b.Sign() == 0 {
		return nil, nil, nil
	}
	X = mulmod(a, rInvP, bigP)
	zinv := mulmod(b, rInvP, bigP)
	if zinv.Sign() == 0 {
		return nil, nil, nil
	}
	Z = new(big.Int).ModInverse(zinv, bigP)
	x := mulmod(X, zinv, bigP) // affine x
	g := new(big.Int).Exp(x, big.NewInt(3), bigP)
	g.Add(g, big7).Mod(g, bigP)
	y := new(big.Int).ModSqrt(g, bigP)
	if y == nil {
		return nil, nil, nil
	}
	return X, mulmod(y, Z, bigP), Z
}

// corpusLadder: the scalar-package entries that concern the scalar's way into Element.Multiply (its bit expansion
// converts the stored form): full-width multiplications, so only the entries z3 had to solve for and a few more.
func (m *M) corpusLadder() {
	n, plain := 0, 0
	for _, e := range loadCorpus("scalar") {
		if e.Func != "FromMontgomery" {
			continue
		}
		as := e.arrays()
		if len(as) < 1 || as[0].Cmp(bigN) >= 0 {
			continue
		}
		if !strings.HasPrefix(e.How, "z3") {
			if plain >= 6 {
				continue
			}
			plain++
		}
		m.reset()
		n++
		m.class("corpus:carry_sites")
		m.EBase(0)
		if n%2 == 0 {
			m.EDouble(0)
		}
		m.SSetInt(0, mulmod(as[0], rInvN, bigN))
		m.EMul(0, 0)
	}
}

// corpusElements: the field-package entries of the carry-coverage corpus reached through the element API of
// property prop (decoders: x^3 + 7 and y^2 of the input coordinates; encoders and Equal: products of a coordinate
// with 1/Z or with the other operand's Z; Multiply: the first doubling / addition of the ladder).
func (m *M) corpusElements(prop string) {
	n := 0
	for _, e := range loadCorpus("field") {
		as := e.arrays()
		if len(as) > 0 && e.Func == "ToMontgomery" && prop == "C03" && as[0].Cmp(bigP) < 0 {
			// the conversion of a coordinate AS IT ARRIVES: a point with this very x (or y)
			v := as[0]
			var enc []byte
			if y := curveY(v); y != nil {
				enc = append([]byte{byte(2 + y.Bit(0))}, be32(v)...)
			} else if px, py := pointWithY(v); px != nil {
				enc = append(append([]byte{4}, be32(px)...), be32(py)...)
			}
			if enc != nil {
				if n%10 == 0 {
					m.reset()
				}
				n++
				m.class("corpus:carry_sites")
				m.EDecodeForm(0, "any", enc)
			}
			continue
		}
		if len(as) == 0 || (e.Func != "Mul" && e.Func != "Square" && e.Func != "Add" && e.Func != "Sub") {
			continue
		}
		var encs [][]byte
		for _, a := range as {
			if p := encWithStoredX(a); p != nil {
				encs = append(encs, p)
			}
			if p := encWithStoredY(a); p != nil {
				encs = append(encs, p)
			}
		}
		var rx, ry, rz *big.Int
		if len(as) >= 2 && rawOK {
			rx, ry, rz = rawWithStored(as[0], as[1])
		}
		if len(encs) == 0 && rx == nil {
			continue
		}
		if n%10 == 0 {
			m.reset()
		}
		n++
		m.class("corpus:carry_sites")
		switch prop {
		case "C03":
			for _, enc := range encs {
				m.EDecodeForm(0, "any", enc)
				if len(enc) == 65 {
					m.EDecodeCoords(1, enc[1:33], enc[33:])
				} else {
					m.EDecodeForm(1, "comp", enc)
				}
			}
		case "C04":
			if len(encs) > 0 {
				m.EDecodeForm(0, "any", encs[0])
				m.EEncode(0)
				m.EEncodeUnc(0)
			}
			if rx != nil {
				m.ESetRaw(1, rx, ry, rz)
				m.EEncode(1)
				m.EEncodeUnc(1)
				m.EXCoord(1)
			}
		case "C05":
			if len(encs) >= 2 {
				m.EDecodeForm(0, "any", encs[0])
				m.EDecodeForm(1, "any", encs[len(encs)-1])
				m.EEqual(0, 1)
				m.EEqual(1, 0)
				m.EEqual(0, 0)
			}
			if rx != nil {
				m.ESetRaw(2, rx, ry, rz)
				m.ESet(3, 2)
				m.ERescale(3, big.NewInt(int64(2+n%7)))
				m.EEqual(2, 3)
				m.EEqual(3, 2)
				m.EIsIdentity(2)
			}
		case "C01":
			if len(encs) == 0 {
				continue
			}
			m.EDecodeForm(0, "any", encs[0])
			m.SSetInt(0, big.NewInt(int64(2+n%3)))
			m.EMul(0, 0)
		}
	}
}
