package main

import (
	"math/big"
)

// relation classes between the two operands of a binary group operation
var relClasses = []string{"independent", "equal_same_rep", "equal_other_rep", "neg_same_rep", "neg_other_rep",
	"id_left", "id_right", "id_both", "same_x_other", "same_y_other", "base_involved", "same_x_plus_y", "same_x_minus_y"}

// setupPair puts P in E[a] and Q in E[b] according to the relation class, in any representations.
func (m *M) setupPair(a, b int, rel string) { m.setupPairLam(a, b, rel, "", "") }

// setupPairLam: la / lb fix the projective scaling class of P / Q ("" = any).
func (m *M) setupPairLam(a, b int, rel, la, lb string) {
	m.class("rel:" + rel)
	lamA := func() string {
		if la != "" {
			return la
		}
		return m.anyLam()
	}
	lamB := func() string {
		if lb != "" {
			return lb
		}
		return m.anyLam()
	}
	x, y := m.randPoint()
	negY := new(big.Int).Sub(bigP, y)
	switch rel {
	case "independent":
		m.putPoint(a, x, y, lamA())
		x2, y2 := m.randPoint()
		m.putPoint(b, x2, y2, lamB())
	case "equal_same_rep":
		m.putPoint(a, x, y, lamA())
		m.ESet(b, a)
	case "equal_other_rep":
		m.putPoint(a, x, y, lamA())
		m.putPoint(b, x, y, lamB())
	case "neg_same_rep":
		m.putPoint(a, x, y, lamA())
		m.ESet(b, a)
		m.ENegate(b)
	case "neg_other_rep", "same_x_other":
		m.putPoint(a, x, y, lamA())
		m.putPoint(b, x, negY, lamB())
	case "same_y_other":
		m.putPoint(a, x, y, lamA())
		m.putPoint(b, mulmod(x, beta, bigP), y, lamB())
	case "same_x_plus_y", "same_x_minus_y":
		// two DIFFERENT points on a common line of slope -1 (resp. +1): x + y (resp. x - y) coincide
		for {
			x, y = m.randPoint()
			if qx, qy := lineSibling(x, y, rel == "same_x_plus_y"); qx != nil {
				m.putPoint(a, x, y, lamA())
				m.putPoint(b, qx, qy, lamB())
				break
			}
		}
	case "id_left":
		m.putIdentity(a, m.rng.Intn(4))
		m.putPoint(b, x, y, lamB())
	case "id_right":
		m.putPoint(a, x, y, lamA())
		m.putIdentity(b, m.rng.Intn(4))
	case "id_both":
		m.putIdentity(a, m.rng.Intn(4))
		m.putIdentity(b, m.rng.Intn(4))
	case "base_involved":
		m.EBase(a)
		if m.rng.Intn(2) == 0 {
			m.EBase(b)
		} else {
			m.putPoint(b, x, y, lamB())
		}
	}
}

// lineSibling returns another curve point on the line through (x, y) of slope -1 (plus) or +1: the points of the
// curve with y = c - x (resp. y = x + c) are the roots of a cubic in x, one of which is known.
func lineSibling(x, y *big.Int, plus bool) (*big.Int, *big.Int) {
	// y = s*X + c with s = -1 or +1; substitute into y^2 = X^3 + 7:  X^3 - X^2 - 2 s c X + (7 - c^2) = 0  (s^2 = 1)
	sgn := big.NewInt(1)
	if plus {
		sgn = new(big.Int).Sub(bigP, one)
	}
	c := new(big.Int).Sub(y, mulmod(sgn, x, bigP))
	c.Mod(c, bigP)
	// sum of roots = 1, so the two other roots r satisfy r1 + r2 = 1 - x and r1 r2 = (c^2 - 7) / x  (x != 0 on this curve)
	sum := new(big.Int).Sub(one, x)
	sum.Mod(sum, bigP)
	prod := new(big.Int).Sub(mulmod(c, c, bigP), big7)
	prod = mulmod(new(big.Int).Mod(prod, bigP), new(big.Int).ModInverse(x, bigP), bigP)
	disc := new(big.Int).Sub(mulmod(sum, sum, bigP), new(big.Int).Lsh(prod, 2))
	disc.Mod(disc, bigP)
	sq := new(big.Int).ModSqrt(disc, bigP)
	if sq == nil {
		return nil, nil
	}
	r := mulmod(new(big.Int).Mod(new(big.Int).Add(sum, sq), bigP), new(big.Int).ModInverse(two, bigP), bigP)
	ry := new(big.Int).Add(mulmod(sgn, r, bigP), c)
	ry.Mod(ry, bigP)
	if r.Cmp(x) == 0 || mulmod(ry, ry, bigP).Cmp(new(big.Int).Mod(new(big.Int).Add(new(big.Int).Exp(r, big.NewInt(3), bigP), big7), bigP)) != 0 {
		return nil, nil
	}
	return r, ry
}

// genC02: Add / Subtract / Double / Negate on every relation class, every aliasing, chained so that
// later operands are in whatever representation earlier operations left them.
func genC02(m *M, budget int) {
	m.corpusGroup()
	budget += m.events
	k := 0
	for m.events < budget {
		m.reset()
		k++
		for _, rel := range []string{relClasses[(3*k)%len(relClasses)], relClasses[(3*k+1)%len(relClasses)], relClasses[(3*k+2)%len(relClasses)]} {
			m.setupPair(0, 1, rel)
			m.ESet(2, 0) // keep copies: the subject operations run on several receivers
			m.ESet(3, 1)
			switch m.rng.Intn(6) {
			case 0:
				m.EAdd(0, 1)
				m.EAdd(3, 2) // commuted
				m.EEqual(0, 3)
			case 1:
				m.ESub(0, 1)
				m.ESub(3, 2)
				m.ENegate(3)
				m.EEqual(0, 3)
			case 2:
				m.EDouble(0)
				m.EAdd(2, 2) // aliasing: receiver is the argument
				m.EEqual(0, 2)
				m.EDouble(1)
			case 3:
				m.ENegate(0)
				m.ENegate(1)
				m.EAdd(0, 2) // P + (-P)
				m.EIsIdentity(0)
			case 4:
				m.ESub(0, 0) // aliasing
				m.EAdd(1, 1)
				m.EAddNil(2)
				m.ESubNil(3)
			case 5:
				m.EAdd(0, 1)
				m.ESub(0, 1) // back to P
				m.EEqual(0, 2)
				m.EDouble(0)
				m.ESub(0, 2) // 2P - P
				m.EEqual(0, 2)
			}
			if m.raw && m.rng.Intn(3) == 0 {
				r := m.rng.Intn(4)
				m.ERescale(r, m.lambda(m.anyLam()))
				m.EAdd(m.rng.Intn(4), r)
			}
		}
		// representations whose Z^2 has boundary Montgomery limbs (doubling and addition multiply Z-products by b3)
		for i := 0; i < 4; i++ {
			x, y := m.randPoint()
			m.putPoint(0, x, y, "sq_mont_window")
			m.ESet(1, 0)
			m.EDouble(0)
			m.EAdd(1, 1)
			m.EEqual(0, 1)
		}
		// points with a coordinate (canonical or in the Montgomery domain) in a boundary window, Z = 1
		for i := 0; i < 5; i++ {
			x, y, cls := m.boundaryPoint()
			m.class("boundary:" + cls)
			m.putPoint(0, x, y, "one")
			m.ESet(1, 0)
			m.ESet(2, 0)
			m.EDouble(0)
			m.EAdd(1, 1)
			switch i % 3 {
			case 0:
				m.ENegate(2)
				m.EAdd(2, 0) // -P + 2P
			case 1:
				m.ESub(0, 2) // 2P - P
			default:
				m.EDouble(1) // 4P
				m.EAdd(2, 1)
			}
		}
		// SYSTEMATIC part (own random stream): every (boundary window kind x coordinate role) in turn, and the pairs with
		// y2 = -y1 but x2 = beta x1 (Y1 Z2 + Y2 Z1 = 0 without Q = -P), added and subtracted in both orders
		budget += m.withAux(func() {
			for i := 0; i < 4; i++ {
				x, y, cls := m.boundaryPointSys()
				m.class("boundary_walk:" + cls)
				m.putPoint(0, x, y, "one")
				m.ESet(1, 0)
				m.ESet(2, 0)
				m.EDouble(0)
				m.EAdd(1, 1)
				m.ESub(0, 2) // 2P - P
				m.EEqual(0, 2)
			}
			x, y := m.randPoint()
			la, lb := "one", "one"
			if k%2 == 0 {
				la, lb = m.anyLam(), m.anyLam()
			}
			bx := mulmod(x, beta, bigP)
			if k%3 == 0 {
				bx = mulmod(bx, beta, bigP)
			}
			m.class("rel:same_y_negated")
			m.putPoint(0, x, y, la)
			m.putPoint(1, bx, new(big.Int).Sub(bigP, y), lb)
			m.ESet(2, 0)
			m.ESet(3, 1)
			m.EAdd(0, 1)
			m.EAdd(3, 2)
			m.EEqual(0, 3)
			m.putPoint(1, bx, y, lb)
			m.ESub(2, 1) // P - (beta x, y) = P + (beta x, -y)
			m.EEqual(2, 0)
		})
	}
}

// genC05: Equal / IsIdentity over all relation classes, both orders.
func genC05(m *M, budget int) {
	m.corpusElements("C05")
	budget += m.events
	lamPairs := [][2]string{{"one", "random"}, {"random", "one"}, {"one", "one"}, {"random", "two"}, {"", ""},
		{"limb_struct", "one"}, {"one", "limb_struct"}, {"limb_struct", "mont_window"}}
	off := m.rng.Intn(1000)
	for c := 0; m.events < budget; c++ {
		if c%2 == 0 {
			m.reset()
		}
		// the full product relation class x (affine / scaled) representation pair, then again
		rel := relClasses[(c+off)%len(relClasses)]
		lp := lamPairs[((c+off)/len(relClasses))%len(lamPairs)]
		m.setupPairLam(0, 1, rel, lp[0], lp[1])
		m.EEqual(0, 1)
		m.EEqual(1, 0)
		m.EEqual(0, 0)
		m.EIsIdentity(0)
		m.EIsIdentity(1)
		// the same comparison after the operands went through arithmetic (other representations)
		m.ESet(2, 0)
		m.EDouble(2)
		m.ESet(3, 0)
		m.EAdd(3, 0)
		m.EEqual(2, 3)
		m.EEqual(3, 1)
		m.ESub(3, 0)
		m.EEqual(3, 0)
		m.ESub(3, 0)
		m.EIsIdentity(3)
		m.EEqual(3, 1)
		m.EEqual(1, 3)
		if m.raw {
			m.ERescale(1, m.lambda("random"))
			m.EEqual(0, 1)
			m.EEqual(1, 0)
		}
		if m.raw && c%2 == 0 {
			// representations whose Z has exactly ONE non-zero stored limb (each position in turn), or whose stored limbs
			// are those of 0 / 1 with one limb replaced: zero tests that look at a part of the value
			x, y := m.randPoint()
			pos := uint(64 * ((c / 2) % 4))
			wv := new(big.Int).Lsh(new(big.Int).SetUint64(m.rng.Uint64()|1), pos)
			if (c/8)%2 == 1 {
				wv = new(big.Int).Lsh(big.NewInt(int64(1+m.rng.Intn(9))), pos)
			}
			l := mulmod(new(big.Int).Mod(wv, bigP), rInvP, bigP)
			m.class("rep:single_stored_limb")
			m.ESetRaw(2, mulmod(x, l, bigP), mulmod(y, l, bigP), l)
			m.EIsIdentity(2)
			m.EIdentity(3)
			m.EEqual(2, 3)
			m.EEqual(3, 2)
			m.putPoint(3, x, y, "mont_near_const")
			m.EEqual(2, 3)
			m.EIsIdentity(3)
		}
		if c%3 == 0 {
			x, y, cls := m.boundaryPoint()
			m.class("boundary:" + cls)
			m.putPoint(0, x, y, "one")
			m.putPoint(1, x, y, m.anyLam())
			m.EEqual(0, 1)
			m.ENegate(1)
			m.EEqual(1, 0)
			m.EIsIdentity(0)
		}
		if c%2 == 0 { // SYSTEMATIC (own random stream): every (boundary window kind x coordinate role) in turn
			budget += m.withAux(func() {
				x, y, cls := m.boundaryPointSys()
				m.class("boundary_walk:" + cls)
				m.putPoint(0, x, y, "one")
				m.putPoint(1, x, y, m.anyLam())
				m.EEqual(0, 1)
				m.EEqual(1, 0)
				m.ENegate(1)
				m.EEqual(0, 1)
				m.EIsIdentity(1)
			})
		}
		if m.raw && c%3 == 1 {
			// two representations of ONE point scaled so that a cross product of the comparison (X1*Z2 or Y1*Z2) has a
			// boundary / structured STORED form: the product's final subtraction decides what the limb comparison sees
			x, y := m.randPoint()
			t, cls := m.resultTarget(bigP)
			t = mulmod(t, rInvP, bigP)
			l1 := m.lambda("random")
			coord := x
			if m.rng.Intn(2) == 0 {
				coord = y
			}
			den := mulmod(coord, l1, bigP)
			if t.Sign() != 0 && coord.Sign() != 0 && m.rng.Intn(2) == 0 {
				// the other operand affine (Z = 1): its side of the comparison is the scaled coordinate ITSELF, the other side a
				// genuine product with the same value
				l := mulmod(t, new(big.Int).ModInverse(coord, bigP), bigP) // coord * l = t
				m.class("rep:coordinate_stored_" + cls + "_vs_affine")
				m.ESetRaw(0, mulmod(x, l, bigP), mulmod(y, l, bigP), l)
				m.putPoint(1, x, y, "one")
				m.EEqual(0, 1)
				m.EEqual(1, 0)
				m.ENegate(1)
				m.EEqual(0, 1)
			} else if t.Sign() != 0 && den.Sign() != 0 {
				l2 := mulmod(t, new(big.Int).ModInverse(den, bigP), bigP) // coord*l1*l2 = t
				m.class("rep:cross_product_stored_" + cls)
				m.ESetRaw(0, mulmod(x, l1, bigP), mulmod(y, l1, bigP), l1)
				m.ESetRaw(1, mulmod(x, l2, bigP), mulmod(y, l2, bigP), l2)
				m.EEqual(0, 1)
				m.EEqual(1, 0)
				m.ENegate(1)
				m.EEqual(0, 1)
			}
		}
		if c%3 == 2 {
			// two DIFFERENT points with one coordinate in common whose other stored coordinates differ by a structured
			// pattern (equal limb differences, a single limb, ...): limb-wise comparisons that fold the limbs wrongly
			for try := 0; try < 200; try++ {
				dm := m.limbStruct()
				d := mulmod(new(big.Int).Mod(dm, bigP), rInvP, bigP) // value whose stored form is the pattern
				if d.Sign() == 0 {
					continue
				}
				var x1, y1, x2, y2 *big.Int
				if m.rng.Intn(2) == 0 { // same y: x2 = beta x1, x2 - x1 = d
					x1 = mulmod(d, new(big.Int).ModInverse(new(big.Int).Sub(beta, one), bigP), bigP)
					y1 = curveY(x1)
					if y1 == nil {
						continue
					}
					x2, y2 = mulmod(x1, beta, bigP), y1
				} else { // same x: y2 = -y1, y2 - y1 = d
					y1 = mulmod(new(big.Int).Sub(bigP, d), new(big.Int).ModInverse(two, bigP), bigP)
					px, py := pointWithY(y1)
					if px == nil {
						continue
					}
					x1, y1, x2, y2 = px, py, px, new(big.Int).Sub(bigP, py)
				}
				// keep only pairs whose stored forms differ by the pattern as a bit pattern too (no carries across limbs)
				s1, s2 := mulmod(x1, bigR, bigP), mulmod(x2, bigR, bigP)
				if x1.Cmp(x2) == 0 {
					s1, s2 = mulmod(y1, bigR, bigP), mulmod(y2, bigR, bigP)
				}
				if new(big.Int).Xor(s1, s2).Cmp(new(big.Int).Mod(dm, bigP)) != 0 {
					continue
				}
				m.class("rel:structured_stored_difference")
				m.putPoint(0, x1, y1, "one")
				m.putPoint(1, x2, y2, "one")
				m.EEqual(0, 1)
				m.EEqual(1, 0)
				break
			}
		}
	}
}

// genC04: the encoders on elements reached in different ways, and the round trip through Decode.
func genC04(m *M, budget int) {
	m.corpusElements("C04")
	budget += m.events
	k := 0
	for m.events < budget {
		m.reset()
		k++
		for _, rel := range []string{relClasses[k%len(relClasses)]} {
			m.setupPair(0, 1, rel)
			for _, v := range []int{0, 1} {
				enc := m.EEncode(v)
				unc := m.EEncodeUnc(v)
				m.EXCoord(v)
				h := m.EHex(v)
				m.EMarshal(v)
				m.EDecodeForm(2, "any", enc)
				m.EEqual(2, v)
				m.EDecodeForm(3, "any", unc)
				m.EEqual(3, v)
				// the decoded copies must also BEHAVE like P (receivers 2, 3 held other values before)
				m.EAdd(2, 1-v)
				m.EAdd(3, 1-v)
				m.EEqual(2, 3)
				m.ESub(2, 1-v)
				m.EEqual(2, v)
				if m.rng.Intn(2) == 0 {
					m.EDecodeForm(2, "hex", []byte(h))
					m.EDecodeForm(3, "unmarshal", enc)
				}
			}
			// the same element computed another way must encode identically
			m.ESet(2, 0)
			m.EAdd(2, 1)
			m.ESet(3, 1)
			m.EAdd(3, 0)
			m.EEncode(2)
			m.EEncode(3)
			m.EEncodeUnc(2)
			m.EEncodeUnc(3)
			if m.raw {
				m.ERescale(2, m.lambda(m.anyLam()))
				m.EEncode(2)
				m.EEncodeUnc(2)
				m.EXCoord(2)
			}
		}
		// representations whose Z is, limb-wise, almost the field's 1 (or 0, -1): "is Z one?" shortcuts live here
		for i := 0; i < 8; i++ {
			x, y := m.randPoint()
			m.putPoint(0, x, y, "mont_near_const")
			m.EEncode(0)
			if i%2 == 0 {
				m.EEncodeUnc(0)
			}
		}
		// SYSTEMATIC (own random stream): every (boundary window kind x coordinate role) in turn, encoded and decoded back
		budget += m.withAux(func() {
			for i := 0; i < 3; i++ {
				x, y, cls := m.boundaryPointSys()
				m.class("boundary_walk:" + cls)
				m.putPoint(0, x, y, m.anyLam())
				enc := m.EEncode(0)
				unc := m.EEncodeUnc(0)
				m.EDecodeForm(1, "any", enc)
				m.EEqual(1, 0)
				m.EDecodeForm(2, "any", unc)
				m.EEqual(2, 0)
			}
		})
		// representations whose Z has every stored limb one of TWO values, 0 and w (all 15 masks of w = 1, 2^63, 2^64-1,
		// in turn over the histories): what an OR / AND over the limbs of Z collapses to a single word
		if m.raw {
			ws := []uint64{1, 1 << 63, ^uint64(0)}
			for j := 0; j < 3; j++ {
				idx := (3*k + j) % 45
				w, mask := ws[idx/15], 1+idx%15
				t := new(big.Int)
				for i := 3; i >= 0; i-- {
					t.Lsh(t, 64)
					if mask>>uint(i)&1 == 1 {
						t.Or(t, new(big.Int).SetUint64(w))
					}
				}
				if t.Cmp(bigP) >= 0 {
					continue
				}
				l := mulmod(t, rInvP, bigP)
				x, y := m.randPoint()
				m.class("rep:two_valued_limbs")
				m.ESetRaw(0, mulmod(x, l, bigP), mulmod(y, l, bigP), l)
				m.EIsIdentity(0)
				m.EEncode(0)
				m.EEncodeUnc(0)
			}
		}
		// extreme coordinates: the encoders must emit them and the decoders take them back
		for i := k; i < k+2; i++ {
			x, y, cls := m.boundaryPoint()
			if i%2 == 1 {
				x, y, cls = m.structuredPoint()
			}
			m.class("boundary:" + cls)
			m.putPoint(0, x, y, m.anyLam())
			enc := m.EEncode(0)
			unc := m.EEncodeUnc(0)
			m.EDecodeForm(1, "any", enc)
			m.EEqual(1, 0)
			m.EDecodeForm(2, []string{"any", "unc", "unmarshal"}[i%3], unc)
			m.EEqual(2, 0)
			if i%4 == 0 {
				m.EDecodeForm(3, "hex", []byte(m.EHex(0)))
				m.EEqual(3, 0)
			}
			m.ENegate(0)
			m.EDecodeForm(1, "comp", m.EEncode(0))
		}
	}
}

// ---------------------------------------------------------------- C03: decoders

func (m *M) xClass(class string) []byte {
	switch class {
	case "zero":
		return make([]byte, 32)
	case "one":
		return be32(big.NewInt(1))
	case "small_on":
		x, _ := m.smallXPoint()
		return be32(x)
	case "small_off":
		for {
			x := big.NewInt(int64(m.rng.Intn(1 << 20)))
			if curveY(x) == nil {
				return be32(x)
			}
		}
	case "p_minus_1":
		return be32(new(big.Int).Sub(bigP, one))
	case "p":
		return be32(bigP)
	case "p_plus_1":
		return be32(new(big.Int).Add(bigP, one))
	case "on_curve_plus_p":
		x, _ := m.smallXPoint()
		return be32(new(big.Int).Add(x, bigP))
	case "max":
		return be32(new(big.Int).Sub(bigR, one))
	case "random_off":
		return be32(m.offCurveX())
	case "boundary":
		x, _, _ := m.boundaryPoint()
		return be32(x)
	case "limbwise_p":
		return be32(m.limbwiseNeighbour(bigP))
	case "structured":
		x, _, cls := m.structuredPoint()
		m.class("structured:" + cls)
		return be32(x)
	case "small_y":
		for {
			if x, _ := pointWithY(big.NewInt(int64(1 + m.rng.Intn(1<<20)))); x != nil {
				return be32(x)
			}
		}
	default: // random_on
		x, _ := m.randPoint()
		return be32(x)
	}
}

var xClasses = []string{"zero", "one", "small_on", "small_off", "p_minus_1", "p", "p_plus_1", "on_curve_plus_p",
	"max", "random_on", "random_on", "random_off", "boundary", "boundary", "small_y", "structured", "structured", "structured", "limbwise_p", "limbwise_p"}
var yClasses = []string{"right", "other_root", "y_plus_p", "random", "ge_p", "zero", "near_miss", "near_miss", "limbwise_p"}
var prefixes = []byte{0, 1, 2, 3, 4, 5, 6, 7, 0xff}

func (m *M) yFor(xb []byte, class string) []byte {
	x := new(big.Int).SetBytes(xb)
	var y *big.Int
	if x.Cmp(bigP) < 0 {
		y = curveY(x)
	} else {
		y = curveY(new(big.Int).Sub(x, bigP))
	}
	switch class {
	case "right":
		if y != nil {
			return be32(y)
		}
	case "other_root":
		if y != nil {
			return be32(new(big.Int).Sub(bigP, y))
		}
	case "y_plus_p":
		if y != nil && new(big.Int).Add(y, bigP).Cmp(bigR) < 0 {
			return be32(new(big.Int).Add(y, bigP))
		}
		// a root small enough for y + p to fit exists only for few x: fall through to >= p
		return be32(new(big.Int).Add(bigP, big.NewInt(int64(m.rng.Intn(1000)))))
	case "ge_p":
		return be32(new(big.Int).Add(bigP, big.NewInt(int64(m.rng.Intn(1000)))))
	case "zero":
		return make([]byte, 32)
	case "limbwise_p":
		return be32(m.limbwiseNeighbour(bigP))
	case "near_miss":
		// NOT on the curve, but y^2 and x^3+7 differ, in their stored (Montgomery) form, in ONE limb / one bit only
		if x.Cmp(bigP) < 0 {
			g := new(big.Int).Exp(x, big.NewInt(3), bigP)
			g.Add(g, big7).Mod(g, bigP)
			for try := 0; try < 20; try++ {
				var dm *big.Int
				if m.rng.Intn(2) == 0 {
					dm = new(big.Int).Lsh(new(big.Int).SetUint64(m.rng.Uint64()|1), uint(64*m.rng.Intn(4)))
				} else {
					dm = new(big.Int).Lsh(one, uint(m.rng.Intn(256)))
				}
				gm := mulmod(g, bigR, bigP) // stored form of g
				if m.rng.Intn(2) == 0 {
					gm.Xor(gm, dm)
				} else {
					gm.Add(gm, dm)
				}
				gm.Mod(gm, bigR)
				if gm.Cmp(bigP) >= 0 {
					continue
				}
				v := mulmod(gm, rInvP, bigP)
				if yy := new(big.Int).ModSqrt(v, bigP); yy != nil && v.Cmp(g) != 0 {
					return be32(yy)
				}
			}
		}
	}
	return be32(m.randBig(bigP))
}

func (m *M) priorReceiver(r int) {
	switch m.rng.Intn(3) {
	case 0:
		m.EIdentity(r)
	case 1:
		m.EBase(r)
	default:
		x, y := m.randPoint()
		m.putPoint(r, x, y, m.anyLam())
	}
}

var hexMangles = []string{"upper", "odd", "nonhex", "space", "0x", "empty"}

func genC03(m *M, budget int) {
	m.corpusElements("C03")
	budget += m.events
	forms := []string{"any", "unmarshal", "comp", "unc", "hex"}
	for m.events < budget {
		m.reset()
		// SYSTEMATIC part (own random stream): exactly one coordinate >= p with the other one right, through every entry
		// point that takes two coordinates; and a point of every (boundary window kind x coordinate role) in turn
		budget += m.withAux(func() {
			sx, sy := m.smallXPoint() // small x: x + p < 2^256
			xp := be32(new(big.Int).Add(sx, bigP))
			m.EDecodeCoords(0, xp, be32(sy))
			m.EDecodeForm(1, []string{"unc", "any", "unmarshal"}[m.hist%3], append(append([]byte{4}, xp...), be32(sy)...))
			for {
				if px, py := pointWithY(big.NewInt(int64(1 + m.rng.Intn(1<<20)))); px != nil {
					yp := be32(new(big.Int).Add(py, bigP)) // small y: y + p < 2^256
					m.EDecodeCoords(0, be32(px), yp)
					m.EDecodeForm(1, []string{"any", "unmarshal", "unc"}[m.hist%3], append(append([]byte{4}, be32(px)...), yp...))
					m.EDecodeCoords(2, be32(px), be32(py)) // and the honest one
					break
				}
			}
			for i := 0; i < 2; i++ {
				x, y, cls := m.boundaryPointSys()
				m.class("boundary_walk:" + cls)
				if i == 0 {
					m.EDecodeCoords(0, be32(x), be32(y))
				} else {
					m.EDecodeForm(0, "any", append([]byte{byte(2 + y.Bit(0))}, be32(x)...))
				}
				m.EDouble(0)
			}
		})
		m.priorReceiver(0)
		for i := 0; i < 40; i++ {
			if m.rng.Intn(8) == 0 {
				m.priorReceiver(0)
			}
			xc := xClasses[m.rng.Intn(len(xClasses))]
			yc := yClasses[m.rng.Intn(len(yClasses))]
			xb := m.xClass(xc)
			yb := m.yFor(xb, yc)
			pfx := prefixes[m.rng.Intn(len(prefixes))]
			if m.rng.Intn(3) != 0 { // mostly plausible prefixes
				pfx = []byte{2, 3, 4}[m.rng.Intn(3)]
			}
			m.class("x:" + xc)
			m.class("y:" + yc)
			var data []byte
			choice := m.rng.Intn(10)
			if xi := new(big.Int).SetBytes(xb); m.rng.Intn(3) == 0 && xi.Cmp(bigP) < 0 {
				if yy := curveY(xi); yy != nil {
					// a VALID encoding of the point with this (boundary / structured / small) abscissa, in either form
					// and with either root: the decoders must accept it
					if m.rng.Intn(2) == 0 {
						yy.Sub(bigP, yy)
					}
					if m.rng.Intn(2) == 0 {
						data = append([]byte{byte(2 + yy.Bit(0))}, xb...)
					} else {
						data = append(append([]byte{4}, xb...), be32(yy)...)
					}
					m.class("valid_encoding_of_class_point")
					choice = -1
				}
			}
			switch choice {
			case -1:
			case 0, 1, 2:
				data = append([]byte{pfx}, xb...)
			case 3, 4, 5:
				data = append(append([]byte{pfx}, xb...), yb...)
			case 6:
				data = []byte{pfx}
			case 7: // wrong lengths around the valid ones
				full := append(append([]byte{pfx}, xb...), yb...)
				l := []int{0, 2, 32, 34, 64, 66, 97}[m.rng.Intn(7)]
				for len(full) < l {
					full = append(full, yb...)
				}
				data = full[:l]
			case 8: // a valid encoding of a real point, then possibly a flipped prefix
				x, y := m.randPoint()
				if m.rng.Intn(2) == 0 {
					data = append([]byte{byte(2 + y.Bit(0))}, be32(x)...)
				} else {
					data = append(append([]byte{4}, be32(x)...), be32(y)...)
				}
				if m.rng.Intn(3) == 0 {
					data[0] ^= 1
				}
			default:
				m.EDecodeCoords(0, xb, yb)
				continue
			}
			form := forms[m.rng.Intn(len(forms))]
			m.class("form:" + form)
			if form == "hex" {
				hx := []byte(hexString(data))
				switch hexMangles[m.rng.Intn(len(hexMangles)*3)%len(hexMangles)] {
				case "upper":
					hx = []byte(upper(string(hx)))
				case "odd":
					if m.rng.Intn(4) == 0 && len(hx) > 0 {
						hx = hx[:len(hx)-1]
					}
				case "nonhex":
					if m.rng.Intn(4) == 0 && len(hx) > 0 {
						hx[m.rng.Intn(len(hx))] = "gG xz-"[m.rng.Intn(6)]
					}
				case "0x":
					if m.rng.Intn(6) == 0 {
						hx = append([]byte("0x"), hx...)
					}
				}
				data = hx
			}
			m.EDecodeForm(0, form, data)
			// whatever a decoder left in the receiver must behave as the group element it stands for
			if i%5 == 4 {
				m.followUp(0)
			}
		}
		// the identity and real points decoded into a receiver that already holds something else
		for _, form := range []string{"any", "unmarshal", "hex"} {
			m.priorReceiver(0)
			if form == "hex" {
				m.EDecodeForm(0, form, []byte("00"))
			} else {
				m.EDecodeForm(0, form, []byte{0})
			}
			m.followUp(0)
		}
	}
}

// followUp exercises the value in E[v] (copied first) next to the same operations on an element built
// directly from coordinates, so that a general fault of those operations shows up there first.
func (m *M) followUp(v int) {
	x, y := m.randPoint()
	m.putPoint(1, x, y, m.anyLam())
	m.ESet(2, 1)
	m.EAdd(2, 1) // calibration: operands not produced by a decoder
	m.ESet(2, 1)
	m.EAdd(2, v) // Q + decoded
	m.ESet(3, v)
	m.EAdd(3, 1) // decoded + Q
	m.ESet(3, v)
	m.EDouble(3)
	m.ESet(3, v)
	m.ENegate(3)
	m.ESet(2, 1)
	m.ESub(2, v)
	m.EEqual(v, 3)
	m.SSetU64(0, uint64(2+m.rng.Intn(30)))
	m.ESet(3, v)
	m.EMul(3, 0)
	m.EEncodeUnc(v)
}

const hexdigits = "0123456789abcdef"

func hexString(b []byte) string {
	out := make([]byte, 2*len(b))
	for i, v := range b {
		out[2*i] = hexdigits[v>>4]
		out[2*i+1] = hexdigits[v&15]
	}
	return string(out)
}

func upper(s string) string {
	b := []byte(s)
	for i, c := range b {
		if c >= 'a' && c <= 'f' {
			b[i] = c - 32
		}
	}
	return string(b)
}

// ---------------------------------------------------------------- C01: scalar multiplication

var elemClasses = []string{"base", "random", "rescaled", "identity", "identity_raw", "identity_cancel", "doubled", "small_x",
	"neg_base", "neg_base_decoded", "base_decoded", "base_rescaled", "boundary", "hashed"}

func (m *M) putElemClass(r int, class string) {
	m.class("elem:" + class)
	switch class {
	case "base":
		m.EBase(r)
	case "random":
		x, y := m.randPoint()
		m.putPoint(r, x, y, "one")
	case "rescaled":
		x, y := m.randPoint()
		m.putPoint(r, x, y, "random")
	case "identity":
		m.putIdentity(r, 0)
	case "identity_raw":
		m.putIdentity(r, 1)
	case "identity_cancel":
		m.putIdentity(r, 2)
	case "doubled":
		x, y := m.randPoint()
		m.putPoint(r, x, y, m.anyLam())
		m.EDouble(r)
	case "small_x":
		x, y := m.smallXPoint()
		m.putPoint(r, x, y, m.anyLam())
	case "neg_base":
		m.EBase(r)
		m.ENegate(r)
	case "neg_base_decoded":
		enc := secp256k1BaseEncoding()
		enc[0] ^= 1
		m.EDecodeForm(r, "any", enc)
	case "base_decoded":
		m.EDecodeForm(r, "any", secp256k1BaseEncoding())
	case "base_rescaled":
		m.EBase(r)
		if m.raw {
			m.ERescale(r, m.lambda("random"))
		} else {
			m.EDouble(r)
		}
	case "boundary":
		x, y, cls := m.boundaryPoint()
		m.class("boundary:" + cls)
		m.putPoint(r, x, y, "one")
	case "hashed":
		m.EHashToGroup(r, m.randBytes(12), []byte("verif-elem-class"))
	}
}

func secp256k1BaseEncoding() []byte {
	gx, _ := new(big.Int).SetString("79be667ef9dcbbac55a06295ce870b07029bfcdb2dce28d959f2815b16f81798", 16)
	return append([]byte{2}, be32(gx)...)
}

// genC01: full selects full-width scalar classes (each costs the validator seconds), otherwise small ones.
func genC01(m *M, nFull, nSmall int) {
	fullClasses := []string{"minus_one", "word_structure", "word_boundary", "half_up", "word_structure", "pow2_255", "top_bit_set",
		"word_boundary", "dense", "limb_pattern", "word_structure", "near_n", "random", "minus_two", "word_boundary", "half_down",
		"word_structure", "top_bit_set", "random", "mont_window", "mont_near_const", "mont_window"}
	smallClasses := []string{"zero", "one", "two", "three", "small", "small", "sparse", "pow2"}
	i := 0
	if nFull == 0 { // with the small scalars (several histories per trace file)
		m.corpusElements("C01")
	}
	if nFull > 0 {
		m.corpusLadder()
	}
	for done := 0; done < nFull; done++ {
		m.reset()
		m.putElemClass(0, elemClasses[i%len(elemClasses)])
		m.putScalar(0, fullClasses[i%len(fullClasses)])
		i++
		m.ESet(1, 0)
		m.EMul(0, 0)
		if m.rng.Intn(3) == 0 {
			m.EMulNil(1)
		}
	}
	for done := 0; done < nSmall; {
		m.reset()
		for j := 0; j < 6; j++ {
			m.putElemClass(0, elemClasses[m.rng.Intn(len(elemClasses))])
			c := smallClasses[m.rng.Intn(len(smallClasses))]
			if c == "sparse" || c == "pow2" {
				// keep the top set bit low so that the validator's ladder stays short
				v := new(big.Int).Lsh(one, uint(m.rng.Intn(24)))
				v.Add(v, big.NewInt(int64(m.rng.Intn(256))))
				m.class("scalar:" + c + "_low")
				m.SSetInt(0, v)
			} else {
				m.putScalar(0, c)
			}
			m.ESet(1, 0)
			m.EMul(0, 0)
			m.EMul(0, 0) // again, on the (non-normalised) result
			done += 2
		}
		m.EMulNil(1)
	}
}
