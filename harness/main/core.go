// Conformance harness for bytemare/secp256k1, compiled INSIDE the module through `go build -overlay`
// (see /verif/bin/check).  It drives the real library, and after every call logs the call, its
// arguments, everything it returned, and the observable value of every variable of the pool.  The
// log (ndjson) is validated by TLC against spec/TraceSecp.tla; nothing in here decides a verdict.
package main

import (
	"bufio"
	"fmt"
	"math/big"
	"math/rand"
	"os"
	"sort"
	"strconv"
	"strings"
	"sync"

	"github.com/bytemare/secp256k1"
)

var (
	bigP, _ = new(big.Int).SetString("fffffffffffffffffffffffffffffffffffffffffffffffffffffffefffffc2f", 16)
	bigN, _ = new(big.Int).SetString("fffffffffffffffffffffffffffffffebaaedce6af48a03bbfd25e8cd0364141", 16)
	bigR    = new(big.Int).Lsh(big.NewInt(1), 256)
	big7    = big.NewInt(7)
)

// ---------------------------------------------------------------- JSON writing (no reflection, bytes as int arrays)

type kv struct {
	k string
	v any
}

func jsonVal(sb *strings.Builder, v any) {
	switch t := v.(type) {
	case int:
		sb.WriteString(strconv.Itoa(t))
	case bool:
		if t {
			sb.WriteString("true")
		} else {
			sb.WriteString("false")
		}
	case string:
		sb.WriteString(strconv.Quote(t))
	case []byte:
		sb.WriteByte('[')
		for i, b := range t {
			if i > 0 {
				sb.WriteByte(',')
			}
			sb.WriteString(strconv.Itoa(int(b)))
		}
		sb.WriteByte(']')
	case []int:
		sb.WriteByte('[')
		for i, b := range t {
			if i > 0 {
				sb.WriteByte(',')
			}
			sb.WriteString(strconv.Itoa(b))
		}
		sb.WriteByte(']')
	case []kv:
		sb.WriteByte('{')
		for i, e := range t {
			if i > 0 {
				sb.WriteByte(',')
			}
			sb.WriteString(strconv.Quote(e.k))
			sb.WriteByte(':')
			jsonVal(sb, e.v)
		}
		sb.WriteByte('}')
	case []any:
		sb.WriteByte('[')
		for i, e := range t {
			if i > 0 {
				sb.WriteByte(',')
			}
			jsonVal(sb, e)
		}
		sb.WriteByte(']')
	default:
		panic(fmt.Sprintf("jsonVal: unsupported %T", v))
	}
}

// ---------------------------------------------------------------- the machine

// M is a pool of element and scalar variables plus the trace being written.
type M struct {
	E                []*secp256k1.Element
	S                []*secp256k1.Scalar
	w                *bufio.Writer
	rng              *rand.Rand
	events           int
	hist             int            // histories (Reset events)
	classes          map[string]int // untrusted class histogram, reported next to the trace
	rootMemo         map[string][2]any
	prop             string
	perFile          int        // events per shard file
	aux              *rand.Rand // a second stream for the systematic blocks: they do not disturb the main one
	bIdx             int        // position in the walk over (boundary window kind x coordinate role)
	sizeIdx          int        // position in the walk over power-of-two preimage sizes
	giants, giantMax int        // calls with a >= 64 KiB tag made / allowed in this run
	files            []string
	dir              string
	shard            int
	inShard          int
	raw              bool // accessor available
	prefix           string
	quiet            bool // burst mode: an event identical to an earlier one (same call, same inputs, same observation) is not written again
	seen             map[string]string
}

// The accessors read and write the fields x, y, z (elements) and S (scalars) ASSUMING what they hold on the pinned
// tree: homogeneous projective coordinates and a residue, all in Montgomery form.  A refactoring may keep the field
// names and change their meaning (Jacobian coordinates, plain limbs): the assumption is therefore tested once per
// process on known values, and where it fails the accessor counts as unavailable -- values are then put in and
// observed through the public API only.
var (
	calibrateOnce sync.Once
	rawOK         bool // element accessor builds AND means (X : Y : Z) homogeneous, Montgomery form
	rawScalarOK   bool // scalar accessor builds AND means the Montgomery form of the residue
)

func calibrateAccessors() {
	calibrateOnce.Do(func() {
		if secp256k1.VerifAccessor {
			ok := true
			gx, gy := new(big.Int).SetBytes(secp256k1BaseEncoding()[1:]), curveY(new(big.Int).SetBytes(secp256k1BaseEncoding()[1:]))
			if gy != nil && gy.Bit(0) != uint(secp256k1BaseEncoding()[0]&1) {
				gy = new(big.Int).Sub(bigP, gy)
			}
			want := secp256k1.Base().Encode()
			for _, l := range []*big.Int{big.NewInt(1), big.NewInt(2), new(big.Int).Sub(bigP, big.NewInt(12345))} {
				e := secp256k1.NewElement()
				x, y, z := secp256k1.VerifLimbs(e)
				*x, *y, *z = montLimbs(mulmod(gx, l, bigP), bigP), montLimbs(mulmod(gy, l, bigP), bigP), montLimbs(l, bigP)
				if panicked, _ := catch(func() { ok = ok && string(e.Encode()) == string(want) && e.Equal(secp256k1.Base()) == 1 }); panicked {
					ok = false
				}
			}
			// and reading: the coordinates of 2G + G must be those of a representation of 3G
			t := secp256k1.Base().Double().Add(secp256k1.Base())
			x, y, z := secp256k1.VerifLimbs(t)
			zv := mulmod(limbsToBig(*z), rInvP, bigP)
			enc := t.EncodeUncompressed()
			if zv.Sign() == 0 || len(enc) != 65 {
				ok = false
			} else {
				ax, ay := new(big.Int).SetBytes(enc[1:33]), new(big.Int).SetBytes(enc[33:])
				ok = ok && mulmod(ax, zv, bigP).Cmp(mulmod(limbsToBig(*x), rInvP, bigP)) == 0 &&
					mulmod(ay, zv, bigP).Cmp(mulmod(limbsToBig(*y), rInvP, bigP)) == 0
			}
			rawOK = ok
		}
		if secp256k1.VerifScalarAccessor {
			ok := true
			for _, v := range []*big.Int{big.NewInt(1), big.NewInt(0xabcdef), new(big.Int).Sub(bigN, big.NewInt(77))} {
				s := secp256k1.NewScalar()
				*secp256k1.VerifScalarLimbs(s) = montLimbs(v, bigN)
				ok = ok && string(s.Encode()) == string(be32(v))
				t := secp256k1.NewScalar()
				_ = t.Decode(be32(v))
				ok = ok && *secp256k1.VerifScalarLimbs(t) == montLimbs(v, bigN)
			}
			rawScalarOK = ok
		}
	})
}

func newMachine(dir, prop string, seed int64, ne, ns int) *M {
	calibrateAccessors()
	m := &M{rng: rand.New(rand.NewSource(seed)), classes: map[string]int{}, rootMemo: map[string][2]any{},
		prop: prop, dir: dir, perFile: 1 << 30, raw: rawOK, giantMax: 2,
		aux: rand.New(rand.NewSource(seed*7919 + 17))}
	learnScalarErrors()
	m.E = make([]*secp256k1.Element, ne)
	m.S = make([]*secp256k1.Scalar, ns)
	return m
}

func (m *M) openShard() {
	if m.w != nil {
		m.w.Flush()
	}
	m.shard++
	name := fmt.Sprintf("%s/trace_%s%03d.ndjson", m.dir, m.prefix, m.shard)
	f, err := os.Create(name)
	if err != nil {
		panic(err)
	}
	m.files = append(m.files, name)
	m.w = bufio.NewWriterSize(f, 1<<20)
	m.inShard = 0
	var sb strings.Builder
	jsonVal(&sb, []kv{{"op", "Header"}, {"ne", len(m.E)}, {"ns", len(m.S)}, {"nf", 4}, {"prop", m.prop}})
	m.w.WriteString(sb.String())
	m.w.WriteByte('\n')
}

func (m *M) class(c string) { m.classes[c]++ }

// witnessFor returns (w, isSquare): a root of x^3+7 with the parity of the prefix, or a root of -(x^3+7).
func (m *M) witnessFor(enc []byte) ([]byte, bool) {
	if len(enc) != 33 {
		return make([]byte, 32), true
	}
	key := string(enc)
	if r, ok := m.rootMemo[key]; ok {
		return r[0].([]byte), r[1].(bool)
	}
	x := new(big.Int).SetBytes(enc[1:])
	var w []byte
	sq := true
	if x.Cmp(bigP) >= 0 {
		w = make([]byte, 32)
	} else {
		g := new(big.Int).Exp(x, big.NewInt(3), bigP)
		g.Add(g, big7).Mod(g, bigP)
		y := new(big.Int).ModSqrt(g, bigP)
		if y == nil {
			sq = false
			g.Neg(g).Mod(g, bigP)
			y = new(big.Int).ModSqrt(g, bigP)
			if y == nil {
				y = big.NewInt(0)
			}
		} else if y.Bit(0) != uint(enc[0]&1) {
			y.Sub(bigP, y).Mod(y, bigP)
		}
		w = y.FillBytes(make([]byte, 32))
	}
	if len(m.rootMemo) > 4096 {
		m.rootMemo = map[string][2]any{}
	}
	m.rootMemo[key] = [2]any{w, sq}
	return w, sq
}

func (m *M) obs() []kv {
	es := make([]any, len(m.E))
	for i, e := range m.E {
		enc := e.Encode()
		w, sq := m.witnessFor(enc)
		es[i] = []kv{{"enc", enc}, {"id", e.IsIdentity()}, {"y", w}, {"sq", sq}}
		if rawOK {
			// the stored coordinates themselves, and (untrusted) what they are the coordinates of
			xl, yl, zl := secp256k1.VerifLimbs(e)
			sx, sy, sz := limbsToBig(*xl), limbsToBig(*yl), limbsToBig(*zl)
			ax, ay := []byte{}, []byte{}
			if zv := mulmod(new(big.Int).Mod(sz, bigP), rInvP, bigP); zv.Sign() != 0 {
				zi := new(big.Int).ModInverse(zv, bigP)
				ax = be32(mulmod(mulmod(new(big.Int).Mod(sx, bigP), rInvP, bigP), zi, bigP))
				ay = be32(mulmod(mulmod(new(big.Int).Mod(sy, bigP), rInvP, bigP), zi, bigP))
			}
			es[i] = []kv{{"enc", enc}, {"id", e.IsIdentity()}, {"y", w}, {"sq", sq},
				{"sx", be32(sx)}, {"sy", be32(sy)}, {"sz", be32(sz)}, {"ax", ax}, {"ay", ay}}
		}
	}
	ss := make([]any, len(m.S))
	seq := make([]int, len(m.S))
	for i, s := range m.S {
		enc := s.Encode()
		ss[i] = enc
		// canonical-representation probe: the stored limbs must be those of the value Encode reports
		// (a non-canonical stored value is invisible to Encode but not to Equal / IsZero)
		seq[i] = 1
		if len(enc) == 32 {
			if v := new(big.Int).SetBytes(enc); v.Cmp(bigN) < 0 {
				ref := secp256k1.NewScalar()
				setScalar(ref, v)
				seq[i] = s.Equal(ref)
			}
		}
	}
	if rawScalarOK { // the stored limbs themselves: the value is theirs, whatever Encode says
		sl := make([]any, len(m.S))
		for i, s := range m.S {
			sl[i] = be32(limbsToBig(*secp256k1.VerifScalarLimbs(s)))
		}
		return []kv{{"E", es}, {"S", ss}, {"Seq", seq}, {"Sl", sl}}
	}
	return []kv{{"E", es}, {"S", ss}, {"Seq", seq}}
}

// emit writes one event with the full observation of the pool.
func (m *M) emit(op string, fields ...kv) {
	if m.w == nil {
		m.openShard()
	}
	all := append([]kv{{"op", op}}, fields...)
	if m.quiet {
		var kb strings.Builder
		jsonVal(&kb, all)
		all = append(all, kv{"obs", m.obs()})
		var sb strings.Builder
		jsonVal(&sb, all)
		if m.seen == nil {
			m.seen = map[string]string{}
		}
		if prev, ok := m.seen[kb.String()]; ok && prev == sb.String() {
			m.classes["burst_calls_identical_to_a_validated_one"]++
			return
		}
		if _, ok := m.seen[kb.String()]; !ok {
			m.seen[kb.String()] = sb.String()
		}
		m.w.WriteString(sb.String())
		m.w.WriteByte('\n')
		m.events++
		m.inShard++
		m.classes["op:"+op]++
		return
	}
	all = append(all, kv{"obs", m.obs()})
	var sb strings.Builder
	jsonVal(&sb, all)
	m.w.WriteString(sb.String())
	m.w.WriteByte('\n')
	m.events++
	m.inShard++
	m.classes["op:"+op]++
}

// reset starts a new history with a fresh pool.
func (m *M) reset() {
	if m.w == nil || m.inShard >= m.perFile {
		m.openShard()
	}
	for i := range m.E {
		m.E[i] = secp256k1.NewElement()
	}
	for i := range m.S {
		m.S[i] = secp256k1.NewScalar()
	}
	m.hist++
	m.emit("Reset")
}

func (m *M) close() {
	if m.w != nil {
		m.w.Flush()
	}
}

func (m *M) summary() string {
	keys := make([]string, 0, len(m.classes))
	for k := range m.classes {
		keys = append(keys, k)
	}
	sort.Strings(keys)
	cl := make([]kv, 0, len(keys))
	for _, k := range keys {
		cl = append(cl, kv{k, m.classes[k]})
	}
	fl := make([]any, len(m.files))
	for i, f := range m.files {
		fl[i] = f
	}
	var sb strings.Builder
	jsonVal(&sb, []kv{{"events", m.events}, {"histories", m.hist}, {"accessor", m.raw}, {"files", fl}, {"classes", cl}})
	return sb.String()
}

// ---------------------------------------------------------------- helpers

// setScalar stores the canonical integer v < n in s: by writing its Montgomery limbs when the scalar accessor is
// available (no decoder involved), through Decode otherwise.
func setScalar(s *secp256k1.Scalar, v *big.Int) {
	if rawScalarOK {
		*secp256k1.VerifScalarLimbs(s) = montLimbs(v, bigN)
		return
	}
	_ = s.Decode(be32(v))
}

func be32(v *big.Int) []byte { return v.FillBytes(make([]byte, 32)) }

// withAux runs f with the auxiliary random stream in place of the main one and returns the number of events it
// wrote (the caller adds them to its budget): blocks added to a generator this way leave every draw of the main
// stream -- and so every history generated before they existed -- as it was.
func (m *M) withAux(f func()) int {
	saved, before := m.rng, m.events
	m.rng = m.aux
	f()
	m.rng = saved
	return m.events - before
}

// mustBeBelow stops the harness (exit 2: inconclusive, never a verdict) when one of ITS OWN setup values is out of
// range -- a generator slip must not be able to look like a disagreement of the library.
func mustBeBelow(v, mod *big.Int, what string) {
	if v.Sign() < 0 || v.Cmp(mod) >= 0 {
		fmt.Fprintf(os.Stderr, "harness: generator bug: %s value %x is not below the modulus\n", what, v)
		os.Exit(2)
	}
}

func (m *M) randBig(mod *big.Int) *big.Int {
	b := make([]byte, 40)
	m.rng.Read(b)
	v := new(big.Int).SetBytes(b)
	return v.Mod(v, mod)
}

func (m *M) randBytes(n int) []byte {
	b := make([]byte, n)
	m.rng.Read(b)
	return b
}

func montLimbs(v, mod *big.Int) [4]uint64 {
	t := new(big.Int).Mul(v, bigR)
	t.Mod(t, mod)
	b := t.FillBytes(make([]byte, 32))
	var out [4]uint64
	for i := 0; i < 4; i++ {
		for j := 0; j < 8; j++ {
			out[i] |= uint64(b[31-(8*i+j)]) << (8 * j)
		}
	}
	return out
}

// catch runs f and reports whether it panicked.
func catch(f func()) (panicked bool, val string) {
	defer func() {
		if r := recover(); r != nil {
			panicked = true
			val = fmt.Sprint(r)
		}
	}()
	f()
	return false, ""
}

func clamp(v uint64) int {
	if v > 1 {
		return 2
	}
	return int(v)
}

func errFlag(err error) int {
	if err != nil {
		return 1
	}
	return 0
}
