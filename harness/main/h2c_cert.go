package main

// Certificates for the hash-to-curve chain: the intermediate points on the isogenous curve E'.
// They are produced with math/big and are UNTRUSTED: spec/H2C.tla checks every link of the chain by
// a relation that has exactly one solution, so a wrong certificate can only make the validator
// report a machinery fault or a disagreement that does not reproduce -- it cannot make a wrong
// result of the library look right.

import (
	"crypto/sha256"
	"fmt"
	"math/big"
	"sync"
)

var (
	isoA, _ = new(big.Int).SetString("3f8731abdd661adca08a5558f0f5d272e953d363cb6f0e5d405447c01a444533", 16)
	isoB    = big.NewInt(1771)
	sswuZ   = new(big.Int).Sub(bigP, big.NewInt(11))
)

func xmdRef(msg, dst []byte, n int) []byte {
	if len(dst) > 255 {
		h := sha256.Sum256(append([]byte("H2C-OVERSIZE-DST-"), dst...))
		dst = h[:]
	}
	dp := append(append([]byte{}, dst...), byte(len(dst)))
	ell := (n + 31) / 32
	in := make([]byte, 64)
	in = append(in, msg...)
	in = append(in, byte(n>>8), byte(n), 0)
	in = append(in, dp...)
	b0 := sha256.Sum256(in)
	out := []byte{}
	prev := make([]byte, 32)
	for i := 1; i <= ell; i++ {
		x := make([]byte, 32)
		for j := range x {
			x[j] = b0[j] ^ prev[j]
		}
		if i == 1 {
			copy(x, b0[:])
		}
		bi := sha256.Sum256(append(append(x, byte(i)), dp...))
		prev = bi[:]
		out = append(out, bi[:]...)
	}
	return out[:n]
}

func inv0(a *big.Int) *big.Int {
	if new(big.Int).Mod(a, bigP).Sign() == 0 {
		return big.NewInt(0)
	}
	return new(big.Int).ModInverse(a, bigP)
}

func gIso(x *big.Int) *big.Int {
	g := new(big.Int).Exp(x, big.NewInt(3), bigP)
	g.Add(g, new(big.Int).Mul(isoA, x)).Add(g, isoB)
	return g.Mod(g, bigP)
}

// sswuRef is RFC 9380 6.6.2 on E'.
func sswuRef(u *big.Int) (*big.Int, *big.Int, bool) {
	u2 := mulmod(u, u, bigP)
	zu2 := mulmod(sswuZ, u2, bigP)
	t := new(big.Int).Add(mulmod(zu2, zu2, bigP), zu2)
	tv1 := inv0(t)
	x1 := mulmod(new(big.Int).Neg(isoB), inv0(isoA), bigP)
	x1 = mulmod(x1, new(big.Int).Add(one, tv1), bigP)
	if tv1.Sign() == 0 {
		x1 = mulmod(isoB, inv0(mulmod(sswuZ, isoA, bigP)), bigP)
	}
	x1.Mod(x1, bigP)
	gx1 := gIso(x1)
	x, first := x1, true
	y := new(big.Int).ModSqrt(gx1, bigP)
	if y == nil {
		first = false
		x = mulmod(zu2, x1, bigP)
		y = new(big.Int).ModSqrt(gIso(x), bigP)
		if y == nil {
			y = big.NewInt(0)
		}
	}
	if y.Bit(0) != u.Bit(0) {
		y = new(big.Int).Sub(bigP, y)
		y.Mod(y, bigP)
	}
	return x, y, first
}

func addIsoRef(x1, y1, x2, y2 *big.Int) (*big.Int, *big.Int, bool) {
	var lam *big.Int
	if x1.Cmp(x2) == 0 {
		if new(big.Int).Add(y1, y2).Mod(new(big.Int).Add(y1, y2), bigP).Sign() == 0 {
			return nil, nil, false
		}
		num := mulmod(big.NewInt(3), mulmod(x1, x1, bigP), bigP)
		num.Add(num, isoA)
		lam = mulmod(num, inv0(new(big.Int).Lsh(y1, 1)), bigP)
	} else {
		lam = mulmod(new(big.Int).Sub(y2, y1), inv0(new(big.Int).Sub(x2, x1)), bigP)
	}
	x3 := new(big.Int).Sub(mulmod(lam, lam, bigP), x1)
	x3.Sub(x3, x2).Mod(x3, bigP)
	y3 := mulmod(lam, new(big.Int).Sub(x1, x3), bigP)
	y3.Sub(y3, y1).Mod(y3, bigP)
	return x3, y3, true
}

// h2cCert returns the certificate record and the square-ness classes of g(x1) for u0 (and u1).
type certMemoEntry struct {
	c   []kv
	cls string
}

var certMemo sync.Map // the certificate depends on (msg, dst, ro) only; bursts repeat the same inputs

func h2cCert(msg, dst []byte, ro bool) ([]kv, string) {
	key := string(msg) + "\x00|" + string(dst) + map[bool]string{true: "|ro", false: "|nu"}[ro] + fmt.Sprint(len(msg))
	if len(msg)+len(dst) < 2000 {
		if v, ok := certMemo.Load(key); ok {
			e := v.(certMemoEntry)
			return e.c, e.cls
		}
	}
	c, cls := h2cCertCompute(msg, dst, ro)
	if len(msg)+len(dst) < 2000 {
		certMemo.Store(key, certMemoEntry{c, cls})
	}
	return c, cls
}

func h2cCertCompute(msg, dst []byte, ro bool) ([]kv, string) {
	empty := []byte{}
	if len(dst) == 0 {
		return []kv{{"q0x", empty}, {"q0y", empty}, {"q1x", empty}, {"q1y", empty}, {"rx", empty}, {"ry", empty}}, "nodst"
	}
	n := 48
	if ro {
		n = 96
	}
	ub := xmdRef(msg, dst, n)
	u0 := new(big.Int).SetBytes(ub[:48])
	u0.Mod(u0, bigP)
	x0, y0, f0 := sswuRef(u0)
	cls := map[bool]string{true: "sq", false: "nsq"}
	if !ro {
		return []kv{{"q0x", be32(x0)}, {"q0y", be32(y0)}, {"q1x", empty}, {"q1y", empty}, {"rx", empty}, {"ry", empty}}, cls[f0]
	}
	u1 := new(big.Int).SetBytes(ub[48:])
	u1.Mod(u1, bigP)
	x1, y1, f1 := sswuRef(u1)
	rx, ry, ok := addIsoRef(x0, y0, x1, y1)
	if !ok {
		return []kv{{"q0x", be32(x0)}, {"q0y", be32(y0)}, {"q1x", be32(x1)}, {"q1y", be32(y1)}, {"rx", empty}, {"ry", empty}}, "cancel"
	}
	return []kv{{"q0x", be32(x0)}, {"q0y", be32(y0)}, {"q1x", be32(x1)}, {"q1y", be32(y1)}, {"rx", be32(rx)}, {"ry", be32(ry)}},
		cls[f0] + "/" + cls[f1]
}
