package main

// C15: caller-owned memory.  Every API function that takes or returns a byte slice is called with its
// slice arguments in three layouts (len = cap, len < cap with sentinel-filled spare capacity, interior
// sub-slice of a larger sentinel-filled buffer).  Logged: the ENTIRE backing array of every argument
// before and after the call, the address ranges (compressed to small ranks, order preserved) of
// caller buffers and of every slice the API returned, and value probes around "write into the returned
// slice".  spec/Mem.tla decides; nothing here compares anything.

import (
	"sort"
	"strings"
	"unsafe"

	"github.com/bytemare/secp256k1"
)

type callerBuf struct {
	name   string
	layout string
	whole  []byte // entire backing array
	off, n int    // the slice handed to the API is whole[off : off+n] with capacity per layout
	before []byte
}

func (b *callerBuf) slice() []byte {
	switch b.layout {
	case "len=cap":
		return b.whole[b.off : b.off+b.n : b.off+b.n]
	default:
		return b.whole[b.off : b.off+b.n] // capacity runs to the end of the backing array
	}
}

const sentinel = 0xA5

func (m *M) mkBuf(name string, content []byte, layout string) *callerBuf {
	b := &callerBuf{name: name, layout: layout, n: len(content)}
	switch layout {
	case "len=cap":
		b.whole = make([]byte, len(content))
	case "len<cap":
		b.whole = make([]byte, len(content)+1+m.rng.Intn(40))
	default: // interior
		b.off = 1 + m.rng.Intn(9)
		b.whole = make([]byte, b.off+len(content)+1+m.rng.Intn(40))
	}
	for i := range b.whole {
		b.whole[i] = sentinel
	}
	copy(b.whole[b.off:], content)
	b.before = append([]byte(nil), b.whole...)
	return b
}

type interval struct{ lo, hi uintptr }

func ivOf(b []byte) interval {
	if cap(b) == 0 {
		return interval{}
	}
	p := uintptr(unsafe.Pointer(unsafe.SliceData(b)))
	return interval{p, p + uintptr(cap(b))}
}

// memHist buffers the events of one history: addresses are compressed to ranks over the WHOLE history
// (order preserved), so that the model can compare a result with every earlier result.
type memHist struct {
	keep    [][]byte // keeps every result alive so that its address is not reused within the history
	pending []pendingEv
}

type pendingEv struct {
	op     string
	fields []kv
	bivs   []interval
	rivs   []interval
	bufs   []*callerBuf
	afters [][]byte
	rets   [][2]int // len, cap
}

var layouts = []string{"len=cap", "len<cap", "interior"}

// memCall records one API call: bufs are the caller's buffers, rets the slices the call returned.
func (m *M) memCall(h *memHist, fn string, bufs []*callerBuf, rets [][]byte) {
	ev := pendingEv{op: "MemCall", fields: []kv{{"fn", fn}}, bufs: bufs}
	for _, b := range bufs {
		iv := interval{}
		if len(b.whole) > 0 {
			iv = ivOf(b.whole[:0:len(b.whole)])
		}
		ev.bivs = append(ev.bivs, iv)
		ev.afters = append(ev.afters, append([]byte{}, b.whole...))
		m.class("layout:" + b.layout)
		h.keep = append(h.keep, b.whole)
	}
	for _, r := range rets {
		ev.rivs = append(ev.rivs, ivOf(r))
		ev.rets = append(ev.rets, [2]int{len(r), cap(r)})
		h.keep = append(h.keep, r)
	}
	h.pending = append(h.pending, ev)
	m.class("fn:" + fn)
}

// probe records a value observed before and after the caller scribbled over a returned slice.
func (m *M) probe(h *memHist, what string, before, after []byte) {
	h.pending = append(h.pending, pendingEv{op: "MemProbe", fields: []kv{{"what", what}, {"before", before}, {"after", after}}})
}

// flush ranks all addresses of the history and writes its events.
func (m *M) flush(h *memHist) {
	var pts []uintptr
	for _, ev := range h.pending {
		for _, iv := range ev.bivs {
			pts = append(pts, iv.lo, iv.hi)
		}
		for _, iv := range ev.rivs {
			pts = append(pts, iv.lo, iv.hi)
		}
	}
	sort.Slice(pts, func(i, j int) bool { return pts[i] < pts[j] })
	rank := map[uintptr]int{}
	for _, p := range pts {
		if _, ok := rank[p]; !ok {
			rank[p] = len(rank) + 1
		}
	}
	iv := func(x interval) []int { return []int{rank[x.lo], rank[x.hi]} }
	for _, ev := range h.pending {
		fields := ev.fields
		if ev.op == "MemCall" {
			bl := make([]any, len(ev.bufs))
			for i, b := range ev.bufs {
				bl[i] = []kv{{"name", b.name}, {"layout", b.layout}, {"off", b.off}, {"len", b.n},
					{"before", b.before}, {"after", ev.afters[i]}, {"iv", iv(ev.bivs[i])}}
			}
			rl := make([]any, len(ev.rivs))
			for i := range ev.rivs {
				rl[i] = []kv{{"iv", iv(ev.rivs[i])}, {"len", ev.rets[i][0]}, {"cap", ev.rets[i][1]}}
			}
			fields = append(fields, kv{"bufs", bl}, kv{"rets", rl})
		}
		m.emitRaw(ev.op, fields...)
	}
	h.pending = nil
}

// emitRaw writes an event without the pool observation (the memory traces have their own spec).
func (m *M) emitRaw(op string, fields ...kv) {
	if m.w == nil {
		m.openShard()
	}
	all := append([]kv{{"op", op}}, fields...)
	var sb strings.Builder
	jsonVal(&sb, all)
	m.w.WriteString(sb.String())
	m.w.WriteByte('\n')
	m.events++
	m.inShard++
	m.classes["op:"+op]++
}

func scribble(b []byte) {
	b = b[:cap(b)]
	for i := range b {
		b[i] ^= 0xFF
	}
}

func genC15(m *M, budget int) {
	for m.events < budget {
		if m.w == nil || m.inShard >= m.perFile {
			m.openShard()
		}
		h := &memHist{}
		m.hist++
		m.emitRaw("MemReset")
		lay := func() string { return layouts[m.rng.Intn(3)] }

		// ---- hashing: message and DST
		for _, fn := range []string{"HashToGroup", "EncodeToGroup", "HashToScalar"} {
			for _, dl := range []int{1, 16, 49, 255, 256, 300} {
				if m.rng.Intn(3) != 0 {
					continue
				}
				msg := m.mkBuf("msg", m.randBytes(m.rng.Intn(100)), lay())
				dst := m.mkBuf("dst", m.randBytes(dl), lay())
				bufs := []*callerBuf{msg, dst}
				if m.rng.Intn(3) == 0 {
					// message and DST are adjacent windows of one record: msg's spare capacity runs over dst
					ml := 1 + m.rng.Intn(60)
					rec := m.mkBuf("record", m.randBytes(ml+dl), "len=cap")
					if m.rng.Intn(2) == 0 {
						msg = &callerBuf{name: "msg", layout: "window", whole: rec.whole, off: 0, n: ml}
						dst = &callerBuf{name: "dst", layout: "window", whole: rec.whole, off: ml, n: dl}
					} else { // DST in front: its spare capacity is the message
						dst = &callerBuf{name: "dst", layout: "window", whole: rec.whole, off: 0, n: dl}
						msg = &callerBuf{name: "msg", layout: "window", whole: rec.whole, off: dl, n: ml}
					}
					bufs = []*callerBuf{rec}
					m.class("layout:one_record")
				}
				var rets [][]byte
				switch fn {
				case "HashToGroup":
					e := secp256k1.HashToGroup(msg.slice(), dst.slice())
					rets = append(rets, e.Encode())
				case "EncodeToGroup":
					e := secp256k1.EncodeToGroup(msg.slice(), dst.slice())
					rets = append(rets, e.Encode())
				default:
					s := secp256k1.HashToScalar(msg.slice(), dst.slice())
					rets = append(rets, s.Encode())
				}
				m.class("dstlen:" + itoa(dl))
				m.memCall(h, fn, bufs, rets)
			}
		}

		// ---- element encoders: fresh results, independent of the element and of each other.
		// Every encoder is called twice (two results of one function must not share memory), the caller
		// then writes all over the results and each encoder is called again: same bytes as before.
		eKinds := []string{"Multiply", "Decode", "DecodeUncompressed", "Add", "Double", "Negate", "Subtract", "HashToGroup", "Copy", "Set", "Base"}
		for _, kind := range []string{eKinds[m.rng.Intn(len(eKinds))], eKinds[m.rng.Intn(len(eKinds))], "Identity"} {
			e := secp256k1.Base().Multiply(secp256k1.NewScalar().SetUInt64(uint64(2 + m.rng.Intn(1000))))
			o := secp256k1.Base().Double()
			switch kind {
			case "Decode":
				_ = e.Decode(o.Encode())
			case "DecodeUncompressed":
				_ = e.DecodeUncompressed(o.EncodeUncompressed())
			case "Add":
				e.Add(o)
			case "Double":
				e.Double()
			case "Negate":
				_ = e.Decode(o.Encode())
				e.Negate()
			case "Subtract":
				e.Subtract(o)
			case "HashToGroup":
				e = secp256k1.HashToGroup(m.randBytes(4), []byte("verif-c15"))
			case "Copy":
				e = e.Copy()
			case "Set":
				e.Set(o)
			case "Base":
				e.Base()
			case "Identity":
				e.Identity()
			}
			m.class("element_made_by:" + kind)
			type encFn struct {
				name string
				f    func() []byte
			}
			fns := []encFn{
				{"Element.Encode", e.Encode},
				{"Element.EncodeUncompressed", e.EncodeUncompressed},
				{"Element.XCoordinate", e.XCoordinate},
				{"Element.MarshalBinary", func() []byte { b, _ := e.MarshalBinary(); return b }},
			}
			var outs [][]byte
			var refs [][]byte
			for _, fn := range fns {
				r1 := fn.f()
				refs = append(refs, append([]byte(nil), r1...))
				m.memCall(h, fn.name, nil, [][]byte{r1})
				r2 := fn.f()
				m.memCall(h, fn.name, nil, [][]byte{r2})
				outs = append(outs, r1, r2)
			}
			for _, r := range outs {
				scribble(r)
			}
			for i, fn := range fns {
				m.probe(h, fn.name+" after writing into earlier results", refs[i], fn.f())
			}
		}
		ord := secp256k1.Order()
		ordRef := append([]byte(nil), ord...)
		m.memCall(h, "Order", nil, [][]byte{ord})
		ord2 := secp256k1.Order()
		m.memCall(h, "Order", nil, [][]byte{ord2})
		scribble(ord)
		scribble(ord2)
		m.probe(h, "Order after writing into an earlier result", ordRef, secp256k1.Order())

		// ---- scalar encoders (zero and non-zero values)
		// the scalar is the direct result of every kind of operation in turn (a result may carry state of the operation
		// that produced it: a cached encoding, a shared scratch value)
		sKinds := []string{"Multiply", "Pow", "Invert", "Add", "Subtract", "Square", "Decode", "HashToScalar", "Copy", "CSelect", "MinusOne", "SetUInt64"}
		for _, kind := range []string{sKinds[m.rng.Intn(len(sKinds))], sKinds[m.rng.Intn(len(sKinds))], "Pow", "Zero"} {
			s := secp256k1.NewScalar().SetUInt64(m.rng.Uint64())
			t := secp256k1.NewScalar().SetUInt64(uint64(2 + m.rng.Intn(50)))
			switch kind {
			case "Multiply":
				s.Multiply(s)
			case "Pow":
				s.SetUInt64(uint64(2 + m.rng.Intn(9)))
				s.Pow(t)
			case "Invert":
				s.Invert()
			case "Add":
				s.Add(t)
			case "Subtract":
				s.Subtract(t)
			case "Square":
				s.Square()
			case "Decode":
				_ = s.Decode(be32(m.scalarOf(m.anyScalarClass())))
			case "HashToScalar":
				s = secp256k1.HashToScalar(m.randBytes(5), []byte("verif-c15"))
			case "Copy":
				s.Pow(t)
				s = s.Copy()
			case "CSelect":
				_ = s.CSelect(1, t, secp256k1.NewScalar().SetUInt64(7).Pow(t))
			case "MinusOne":
				s.MinusOne()
			case "Zero":
				s.Zero()
			}
			m.class("scalar_made_by:" + kind)
			sref := s.Encode()
			se, se2 := s.Encode(), s.Encode()
			m.memCall(h, "Scalar.Encode", nil, [][]byte{se})
			m.memCall(h, "Scalar.Encode", nil, [][]byte{se2})
			sm, _ := s.MarshalBinary()
			sm2, _ := s.MarshalBinary()
			m.memCall(h, "Scalar.MarshalBinary", nil, [][]byte{sm})
			m.memCall(h, "Scalar.MarshalBinary", nil, [][]byte{sm2})
			for _, r := range [][]byte{se, se2, sm, sm2} {
				scribble(r)
			}
			m.probe(h, "Scalar.Encode after writing into earlier results", sref, s.Encode())
			mb, _ := s.MarshalBinary()
			m.probe(h, "Scalar.MarshalBinary after writing into earlier results", sref, mb)
		}

		// ---- decoders: the input slice is only read; the decoded value does not alias it
		x, y := m.randPoint()
		comp := append([]byte{byte(2 + y.Bit(0))}, be32(x)...)
		uncIn := append(append([]byte{4}, be32(x)...), be32(y)...)
		badIn := append([]byte{2}, be32(m.offCurveX())...)
		for _, c := range []struct {
			fn   string
			data []byte
		}{{"Element.Decode", comp}, {"Element.Decode", uncIn}, {"Element.Decode", badIn}, {"Element.DecodeCompressed", comp},
			{"Element.DecodeUncompressed", uncIn}, {"Element.UnmarshalBinary", comp}, {"Element.Decode", []byte{0}}} {
			in := m.mkBuf("data", c.data, lay())
			d := secp256k1.NewElement()
			switch c.fn {
			case "Element.Decode":
				_ = d.Decode(in.slice())
			case "Element.DecodeCompressed":
				_ = d.DecodeCompressed(in.slice())
			case "Element.DecodeUncompressed":
				_ = d.DecodeUncompressed(in.slice())
			default:
				_ = d.UnmarshalBinary(in.slice())
			}
			before := d.Encode()
			m.memCall(h, c.fn, []*callerBuf{in}, nil)
			scribble(in.whole)
			m.probe(h, c.fn+": decoded element after overwriting the input buffer", before, d.Encode())
		}
		for _, fn := range []string{"Scalar.Decode", "Scalar.UnmarshalBinary"} {
			in := m.mkBuf("data", be32(m.scalarOf(m.anyScalarClass())), lay())
			d := secp256k1.NewScalar()
			if fn == "Scalar.Decode" {
				_ = d.Decode(in.slice())
			} else {
				_ = d.UnmarshalBinary(in.slice())
			}
			before := d.Encode()
			m.memCall(h, fn, []*callerBuf{in}, nil)
			scribble(in.whole)
			m.probe(h, fn+": decoded scalar after overwriting the input buffer", before, d.Encode())
		}
		m.flush(h)
	}
}
