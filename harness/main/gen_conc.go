package main

// C16: goroutines call the API concurrently on receivers they own while sharing read-only arguments
// (elements, scalars, message / DST / encoding slices).  The binary is built with -race; the race
// detector's reports are collected by the driver and appended to the traces as RaceReport events.
// Every goroutine records its own history, which TLC validates against the sequential specification:
// "every call returns what it would return if run alone".

import (
	"bufio"
	"bytes"
	"fmt"
	"math/big"
	"math/rand"
	"runtime"
	"sync"

	"github.com/bytemare/secp256k1"
)

type shared struct {
	elems   []*secp256k1.Element
	scalars []*secp256k1.Scalar
	msg     []byte
	dst     []byte // has spare capacity
	dstLong []byte // > 255 bytes, spare capacity
	enc     []byte // a valid compressed encoding
	encUnc  []byte
	senc    []byte // a valid scalar encoding
	// several DIFFERENT shared values of each kind: what one goroutine's call leaves behind in the package must not
	// leak into another goroutine's call on other arguments
	dstLongs [][]byte
	dsts     [][]byte
	msgs     [][]byte
	encs     [][]byte // valid encodings of distinct points (compressed and uncompressed)
	bad      [][]byte // encodings every decoder rejects, each for another reason
}

// burst: tight loops of calls that OVERWRITE one receiver without reading it (hashing, decoding of valid
// encodings) over the shared values, all goroutines at once.  Identical events are written once (emit's quiet
// mode): every call is still compared, through its recorded observation, with the validated call on the same inputs.
// Each loop changes one pool slot only, so that an unwritten event leaves the recorded history stale in that slot
// alone -- which the next written event overwrites without reading.
func burst(m *M, f string, sh *shared, n int) {
	if f == "" || f == "C08" || f == "C03" {
		m.quiet = true
		for i := 0; i < n; i++ {
			k := m.rng.Intn(1 << 20)
			switch {
			case f == "C03" || (f == "" && i%2 == 0):
				m.EDecodeForm(0, "any", sh.encs[k%len(sh.encs)])
			case k%2 == 0:
				m.EEncodeToGroup(0, sh.msgs[k%2], sh.dstLongs[(k>>4)%len(sh.dstLongs)])
			default:
				m.EEncodeToGroup(0, sh.msgs[k%2], sh.dsts[(k>>4)%len(sh.dsts)])
			}
		}
		m.quiet = false
		m.EIdentity(0) // resynchronise the recorded history with the receiver
	}
	if f == "" || f == "C09" {
		m.quiet = true
		for i := 0; i < n; i++ {
			k := m.rng.Intn(1 << 20)
			if k%4 != 0 {
				m.SHashToScalar(0, sh.msgs[k%2], sh.dstLongs[(k>>4)%len(sh.dstLongs)])
			} else {
				m.SHashToScalar(0, sh.msgs[k%2], sh.dsts[(k>>4)%len(sh.dsts)])
			}
		}
		m.quiet = false
		m.SZero(0)
	}
}

func badEncodings(rng *rand.Rand) [][]byte {
	var xOff []byte // an x that is not the abscissa of a curve point
	for {
		x := make([]byte, 32)
		rng.Read(x)
		x[0] &= 0x7f
		xb := new(big.Int).SetBytes(x)
		g := new(big.Int).Exp(xb, big.NewInt(3), bigP)
		g.Add(g, big7).Mod(g, bigP)
		if new(big.Int).ModSqrt(g, bigP) == nil {
			xOff = x
			break
		}
	}
	y := make([]byte, 32)
	rng.Read(y)
	y[0] &= 0x7f
	return [][]byte{
		append([]byte{2}, xOff...), append([]byte{3}, xOff...), // off the curve
		append([]byte{2}, be32(bigP)...),         // x = p
		append([]byte{5}, xOff...),               // bad prefix
		append(append([]byte{4}, xOff...), y...), // uncompressed, off the curve
		{2, 1, 2, 3},                             // bad length
		{},
	}
}

// focus restricts the concurrent call mix to the actions of one property (set with -focus); empty = all.
var focus string

// focusOp performs one call (or a short group) of the focused property on own receivers with shared arguments.
func focusOp(m *M, f string, r int, sh *shared) {
	switch f {
	case "C01":
		m.ESet(r, 2+m.rng.Intn(2))
		m.EMul(r, 1)
	case "C02":
		switch m.rng.Intn(5) {
		case 0:
			m.ESet(r, 2)
		case 1:
			m.EAdd(r, 2+m.rng.Intn(2))
		case 2:
			m.ESub(r, 2+m.rng.Intn(2))
		case 3:
			m.EDouble(r)
		default:
			m.ENegate(r)
		}
	case "C03":
		switch m.rng.Intn(4) {
		case 0:
			m.EDecodeForm(r, "any", sh.enc)
		case 1:
			m.EDecodeForm(r, "unc", sh.encUnc)
		case 2:
			m.EDecodeForm(r, "hex", []byte(hexString(sh.enc)))
		default:
			m.EDecodeForm(r, "comp", sh.enc)
		}
	case "C04":
		switch m.rng.Intn(5) {
		case 0:
			m.EEncode(2 + m.rng.Intn(2))
		case 1:
			m.EEncodeUnc(2 + m.rng.Intn(2))
		case 2:
			m.EHex(2)
		case 3:
			m.EMarshal(3)
		default:
			m.EXCoord(2)
		}
	case "C05":
		switch m.rng.Intn(3) {
		case 0:
			m.EEqual(2, 3)
		case 1:
			m.EEqual(3, 3)
		default:
			m.EIsIdentity(2 + m.rng.Intn(2))
		}
	case "C06":
		switch m.rng.Intn(7) {
		case 0:
			m.SSet(0, 1)
		case 1:
			m.SAdd(0, 1+m.rng.Intn(2))
		case 2:
			m.SMul(0, 1+m.rng.Intn(2))
		case 3:
			m.SSub(0, 1)
		case 4:
			m.SSquare(0)
		case 5:
			m.SSet(0, 1)
			m.SInvert(0)
		default:
			m.SSetU64(0, uint64(2+m.rng.Intn(6)))
			m.SPow(0, 1)
		}
	case "C07":
		switch m.rng.Intn(4) {
		case 0:
			m.SEncode(1 + m.rng.Intn(2))
		case 1:
			m.SDecodeForm(0, "bytes", sh.senc)
		case 2:
			m.SHex(1)
		default:
			m.SDecodeForm(0, "hex", []byte(hexString(sh.senc)))
		}
	case "C08":
		if m.rng.Intn(2) == 0 {
			m.EHashToGroup(r, sh.msg, sh.dst)
		} else {
			m.EEncodeToGroup(r, sh.msg, sh.dstLong)
		}
	case "C09":
		if m.rng.Intn(2) == 0 {
			m.SHashToScalar(0, sh.msg, sh.dst)
		} else {
			m.SHashToScalar(0, sh.msg, sh.dstLong)
		}
	case "C13":
		switch m.rng.Intn(4) {
		case 0:
			m.SLessOrEqual(1, 2)
		case 1:
			m.SEqual(1, 2)
		case 2:
			m.SCSelect(0, uint64(m.rng.Intn(3)), 1, 2)
		default:
			m.SIsZero(1)
			m.SIsOne(2)
		}
	case "C14":
		m.SBits(1 + m.rng.Intn(2))
	default:
		m.EAdd(r, 2)
	}
}

var burstN = 120

func genC16(m0 *M, rounds int) {
	for round := 0; round < rounds; round++ {
		rng := rand.New(rand.NewSource(m0.rng.Int63()))
		procs := []int{1, 2, 4, 16}[round%4]
		runtime.GOMAXPROCS(procs)
		ng := []int{2, 3, 4, 8, 16}[rng.Intn(5)]
		// ---- shared, read-only arguments
		sh := &shared{}
		for i := 0; i < 2; i++ {
			k := secp256k1.NewScalar().SetUInt64(uint64(2 + rng.Intn(1000)))
			sh.elems = append(sh.elems, secp256k1.Base().Multiply(k))
		}
		sh.elems[1].Double() // a non-normalised representation
		small := uint64(2 + rng.Intn(4000))
		if round%2 == 0 {
			small = uint64(2 + rng.Intn(5)) // tiny shared scalar: results of Pow etc. stay short
		}
		sh.scalars = append(sh.scalars, secp256k1.NewScalar().SetUInt64(small), secp256k1.NewScalar().MinusOne())
		sh.msg = make([]byte, 10+rng.Intn(90), 200)
		rng.Read(sh.msg)
		sh.dst = make([]byte, 1+rng.Intn(60), 128)
		rng.Read(sh.dst)
		sh.dstLong = make([]byte, 256+rng.Intn(100), 512)
		rng.Read(sh.dstLong)
		sh.enc = sh.elems[0].Encode()
		sh.encUnc = sh.elems[1].EncodeUncompressed()
		sh.senc = sh.scalars[0].Encode()
		for i := 0; i < 3; i++ {
			dl := make([]byte, 256+rng.Intn(60), 400)
			if i == 2 {
				dl = make([]byte, len(sh.dstLongs[1]), 400) // same length as another one
			}
			rng.Read(dl)
			sh.dstLongs = append(sh.dstLongs, dl)
			ds := make([]byte, 1+rng.Intn(60), 128)
			rng.Read(ds)
			sh.dsts = append(sh.dsts, ds)
			ms := make([]byte, rng.Intn(80), 128)
			rng.Read(ms)
			sh.msgs = append(sh.msgs, ms)
			pt := secp256k1.Base().Multiply(secp256k1.NewScalar().SetUInt64(uint64(3 + rng.Intn(100000))))
			sh.encs = append(sh.encs, pt.Encode(), pt.Double().EncodeUncompressed())
		}
		sh.bad = badEncodings(rng)

		var wg sync.WaitGroup
		start := make(chan struct{})
		ms := make([]*M, ng)
		bufs := make([]*bytes.Buffer, ng)
		for g := 0; g < ng; g++ {
			m := newMachine(m0.dir, m0.prop, rng.Int63(), 4, 3)
			m.prefix = fmt.Sprintf("r%03dg%02d_", round, g)
			bufs[g] = &bytes.Buffer{}
			m.w = bufio.NewWriter(bufs[g]) // in memory: the round's histories are concatenated into one trace file
			ms[g] = m
			wg.Add(1)
			go func(m *M) {
				defer wg.Done()
				// own receivers in slots 0, 1; the shared elements sit in slots 2, 3; shared scalars in 1, 2
				m.E[0], m.E[1] = secp256k1.NewElement(), secp256k1.NewElement()
				m.E[2], m.E[3] = sh.elems[0], sh.elems[1]
				m.S[0] = secp256k1.NewScalar()
				m.S[1], m.S[2] = sh.scalars[0], sh.scalars[1]
				m.hist++
				m.emit("Adopt")
				<-start
				if focus == "" {
					// prologue: every goroutine touches every shared argument in the ways that may lazily initialise or
					// memoise something, so that "first use" happens concurrently in every round
					m.EHashToGroup(0, sh.msg, sh.dstLong)
					m.SHashToScalar(0, sh.msg, sh.dst)
					m.EEqual(3, 2)
					m.EEqual(2, 3)
					m.ESet(1, 2)
					m.EAdd(1, 3)
					m.EMul(1, 1)
					m.SBits(2)
					m.EEncode(3)
					m.EEncodeUnc(2)
					m.SSet(0, 1)
					m.SPow(0, 1)
				}
				if focus == "" || focus == "C03" {
					// every decoder's error paths, taken while the others run: what a rejected input leaves behind in the
					// package (scratch values, pools) must not reach a later call
					for j := 0; j < 3; j++ {
						b := sh.bad[m.rng.Intn(len(sh.bad))]
						m.EDecodeForm(m.rng.Intn(2), []string{"any", "comp", "unc", "unmarshal"}[m.rng.Intn(4)], b)
					}
				}
				for i := 0; i < 16; i++ {
					if m.rng.Intn(3) == 0 {
						runtime.Gosched()
					}
					r := m.rng.Intn(2)
					if focus != "" {
						focusOp(m, focus, r, sh)
						continue
					}
					switch m.rng.Intn(30) {
					case 20: // short results: small base, small shared exponent
						m.SSetU64(0, uint64(2+m.rng.Intn(6)))
						m.SPow(0, 1)
					case 21:
						m.SSetU64(0, uint64(m.rng.Intn(3)))
						m.SMul(0, 1)
						m.SInvert(0)
					case 22:
						m.EIdentity(r)
						m.EEncodeUnc(r)
						m.EEncode(r)
						m.EHex(r)
					case 23:
						m.EHex(2)
						m.EMarshal(3)
						m.EXCoord(2)
						m.SHex(1)
						m.SMarshal(2)
					case 24:
						m.EDecodeForm(r, "hex", []byte(hexString(sh.enc)))
						m.SDecodeForm(0, "hex", []byte(hexString(sh.senc)))
					case 25:
						m.ENegate(r)
						m.EDouble(r)
						m.EIsIdentity(r)
					case 26:
						m.SSet(0, 2)
						m.SSquare(0)
						m.SSub(0, 1)
						m.SIsZero(0)
					case 27:
						m.EDecodeForm(r, "comp", sh.enc)
						m.EDecodeForm(r, "unc", sh.encUnc)
						m.EDecodeForm(r, "any", []byte{0})
					case 28:
						m.SSetU64(0, m.rng.Uint64())
						m.SPow(0, 2) // s^(n-1) = 1
						m.SIsOne(0)
					case 29:
						m.ESet(r, 2)
						m.EMulNil(r)
						m.SMulNil(0)
						m.SPowNil(0)
					case 0, 1:
						m.EHashToGroup(r, sh.msg, sh.dst)
					case 2:
						m.EEncodeToGroup(r, sh.msg, sh.dst)
					case 3:
						m.SHashToScalar(0, sh.msg, sh.dst)
					case 4:
						m.EHashToGroup(r, sh.msg, sh.dstLong)
					case 5:
						m.SHashToScalar(0, sh.msg, sh.dstLong)
					case 6, 7:
						m.EAdd(r, 2+m.rng.Intn(2))
					case 8:
						m.ESub(r, 2+m.rng.Intn(2))
					case 9:
						m.ESet(r, 2+m.rng.Intn(2))
						m.EMul(r, 1)
					case 10:
						m.ECopy(r, 3)
						m.EDouble(r)
					case 11:
						m.EEqual(r, 2)
						m.EEqual(3, 2)
					case 12:
						m.EDecodeForm(r, "any", sh.enc)
						m.EDecodeForm(1-r, "any", sh.encUnc)
					case 13:
						m.EEncode(2)
						m.EEncodeUnc(3)
						m.EIsIdentity(2)
					case 14:
						m.SAdd(0, 1)
						m.SMul(0, 2)
					case 15:
						m.SSet(0, 1)
						m.SPow(0, 1)
					case 16:
						m.SCSelect(0, uint64(m.rng.Intn(3)), 1, 2)
						m.SLessOrEqual(1, 2)
					case 17:
						m.SBits(1)
						m.SEncode(2)
						m.SEqual(1, 2)
					case 18:
						m.SDecodeForm(0, "bytes", sh.senc)
					case 19:
						m.Order()
						m.SCopy(0, 2)
						m.SInvert(0)
					}
				}
				if focus == "" || focus == "C03" || focus == "C08" || focus == "C09" {
					burst(m, focus, sh, burstN)
				}
				m.close()
			}(m)
		}
		close(start)
		wg.Wait()
		if m0.w == nil || m0.inShard >= m0.perFile {
			m0.openShard()
		}
		for g, x := range ms {
			if g > 0 && g%3 == 0 {
				m0.openShard() // the histories are independent: spread a large round over several trace files
			}
			m0.w.Write(bufs[g].Bytes())
			m0.inShard += x.events
			m0.events += x.events
			m0.hist += x.hist
			for k, v := range x.classes {
				m0.classes[k] += v
			}
		}
	}
	runtime.GOMAXPROCS(runtime.NumCPU())
}

func init() {
	gens["C16"] = func(m *M, pick func(q, t int) int, shards int) {
		m.perFile = 1 // one trace file per round
		genC16(m, pick(16, 120))
	}
}
