package main

// One wrapper per public API call: perform the call on the real library, then log it.
// Variable ids in the trace are 1-based.

import (
	"math/big"

	"github.com/bytemare/secp256k1"
)

// ---------------------------------------------------------------- elements

func (m *M) ENew(r int)      { m.E[r] = secp256k1.NewElement(); m.emit("ENew", kv{"r", r + 1}) }
func (m *M) EIdentity(r int) { m.E[r].Identity(); m.emit("EIdentity", kv{"r", r + 1}) }
func (m *M) EBase(r int) {
	if m.rng.Intn(2) == 0 {
		m.E[r].Base()
	} else {
		m.E[r] = secp256k1.Base()
	}
	m.emit("EBase", kv{"r", r + 1})
}
func (m *M) ESet(r, a int)  { m.E[r].Set(m.E[a]); m.emit("ESet", kv{"r", r + 1}, kv{"a", a + 1}) }
func (m *M) ECopy(r, a int) { m.E[r] = m.E[a].Copy(); m.emit("ECopy", kv{"r", r + 1}, kv{"a", a + 1}) }
func (m *M) EAdd(r, a int)  { m.E[r].Add(m.E[a]); m.emit("EAdd", kv{"r", r + 1}, kv{"a", a + 1}) }
func (m *M) EAddNil(r int)  { m.E[r].Add(nil); m.emit("EAddNil", kv{"r", r + 1}) }
func (m *M) ESub(r, a int)  { m.E[r].Subtract(m.E[a]); m.emit("ESub", kv{"r", r + 1}, kv{"a", a + 1}) }
func (m *M) ESubNil(r int)  { m.E[r].Subtract(nil); m.emit("ESubNil", kv{"r", r + 1}) }
func (m *M) EDouble(r int)  { m.E[r].Double(); m.emit("EDouble", kv{"r", r + 1}) }
func (m *M) ENegate(r int)  { m.E[r].Negate(); m.emit("ENegate", kv{"r", r + 1}) }
func (m *M) EMul(r, s int)  { m.E[r].Multiply(m.S[s]); m.emit("EMul", kv{"r", r + 1}, kv{"s", s + 1}) }
func (m *M) EMulNil(r int)  { m.E[r].Multiply(nil); m.emit("EMulNil", kv{"r", r + 1}) }

func (m *M) EEqual(a, b int) {
	ret := m.E[a].Equal(m.E[b])
	if ret < 0 || ret > 1 {
		ret = 2
	}
	m.emit("EEqual", kv{"a", a + 1}, kv{"b", b + 1}, kv{"ret", ret})
}
func (m *M) EIsIdentity(a int) { m.emit("EIsIdentity", kv{"a", a + 1}, kv{"ret", m.E[a].IsIdentity()}) }
func (m *M) EEncode(a int) []byte {
	ret := m.E[a].Encode()
	m.emit("EEncode", kv{"a", a + 1}, kv{"ret", ret})
	return ret
}
func (m *M) EEncodeUnc(a int) []byte {
	ret := m.E[a].EncodeUncompressed()
	m.emit("EEncodeUnc", kv{"a", a + 1}, kv{"ret", ret})
	return ret
}
func (m *M) EXCoord(a int) { m.emit("EXCoord", kv{"a", a + 1}, kv{"ret", m.E[a].XCoordinate()}) }
func (m *M) EHex(a int) string {
	h := m.E[a].Hex()
	m.emit("EHex", kv{"a", a + 1}, kv{"ret", []byte(h)})
	return h
}
func (m *M) EMarshal(a int) {
	ret, err := m.E[a].MarshalBinary()
	m.emit("EMarshal", kv{"a", a + 1}, kv{"ret", ret}, kv{"err", errFlag(err)})
}

// sqrtWitness returns a witness for the square-ness of x^3+7 for a 32-byte big-endian x (see Sec1.tla).
func sqrtWitness(xb []byte) []byte {
	if len(xb) != 32 {
		return make([]byte, 32)
	}
	x := new(big.Int).SetBytes(xb)
	if x.Cmp(bigP) >= 0 {
		return make([]byte, 32)
	}
	g := new(big.Int).Exp(x, big.NewInt(3), bigP)
	g.Add(g, big7).Mod(g, bigP)
	y := new(big.Int).ModSqrt(g, bigP)
	if y == nil {
		g.Neg(g).Mod(g, bigP)
		y = new(big.Int).ModSqrt(g, bigP)
		if y == nil {
			y = big.NewInt(0)
		}
	}
	return be32(y)
}

func witnessOfEncoding(data []byte) []byte {
	if len(data) == 33 {
		return sqrtWitness(data[1:])
	}
	return make([]byte, 32)
}

// EDecodeForm calls one of the decoders; form is "any", "unmarshal", "comp", "unc", "hex".
func (m *M) EDecodeForm(r int, form string, data []byte) {
	var err error
	e := m.E[r]
	cp := append([]byte(nil), data...)
	op := ""
	w := witnessOfEncoding(data)
	panicked, _ := catch(func() {
		switch form {
		case "any":
			op = "EDecode"
			err = e.Decode(cp)
		case "unmarshal":
			op = "EUnmarshal"
			err = e.UnmarshalBinary(cp)
		case "comp":
			op = "EDecodeComp"
			err = e.DecodeCompressed(cp)
		case "unc":
			op = "EDecodeUnc"
			err = e.DecodeUncompressed(cp)
		case "hex":
			op = "EDecodeHex"
			err = e.DecodeHex(string(cp))
			if raw, ok := unhex(cp); ok {
				w = witnessOfEncoding(raw)
			}
		}
	})
	ef := errFlag(err)
	if panicked {
		ef = 9 // neither "accepted" nor "rejected with an error": never allowed
	}
	m.emit(op, kv{"r", r + 1}, kv{"data", data}, kv{"w", w}, kv{"err", ef})
}

func unhex(cs []byte) ([]byte, bool) {
	if len(cs)%2 != 0 {
		return nil, false
	}
	out := make([]byte, len(cs)/2)
	for i, c := range cs {
		var v byte
		switch {
		case c >= '0' && c <= '9':
			v = c - '0'
		case c >= 'a' && c <= 'f':
			v = c - 'a' + 10
		case c >= 'A' && c <= 'F':
			v = c - 'A' + 10
		default:
			return nil, false
		}
		if i%2 == 0 {
			out[i/2] = v << 4
		} else {
			out[i/2] |= v
		}
	}
	return out, true
}

func (m *M) EDecodeCoords(r int, x, y []byte) {
	var xa, ya [32]byte
	copy(xa[:], x)
	copy(ya[:], y)
	var err error
	panicked, _ := catch(func() { err = m.E[r].DecodeCoordinates(xa, ya) })
	ef := errFlag(err)
	if panicked {
		ef = 9
	}
	m.emit("EDecodeCoords", kv{"r", r + 1}, kv{"x", xa[:]}, kv{"y", ya[:]}, kv{"err", ef})
}

// ESetRaw puts the projective triple (X : Y : Z), given as canonical integers, into E[r] (accessor).
func (m *M) ESetRaw(r int, X, Y, Z *big.Int) {
	mustBeBelow(X, bigP, "ESetRaw X")
	mustBeBelow(Y, bigP, "ESetRaw Y")
	mustBeBelow(Z, bigP, "ESetRaw Z")
	x, y, z := secp256k1.VerifLimbs(m.E[r])
	*x, *y, *z = montLimbs(X, bigP), montLimbs(Y, bigP), montLimbs(Z, bigP)
	m.emit("ESetRaw", kv{"r", r + 1}, kv{"x", be32(X)}, kv{"y", be32(Y)}, kv{"z", be32(Z)})
}

// ERescale multiplies all three coordinates by lam != 0 (accessor); the group element must not change.
func (m *M) ERescale(r int, lam *big.Int) {
	x, y, z := secp256k1.VerifLimbs(m.E[r])
	for _, c := range []*[4]uint64{x, y, z} {
		v := limbsToBig(*c) // Montgomery form: v = a R; (a lam) R = v lam
		v.Mul(v, lam).Mod(v, bigP)
		*c = bigToLimbs(v)
	}
	m.emit("ERescale", kv{"r", r + 1}, kv{"lam", be32(lam)})
}

func limbsToBig(l [4]uint64) *big.Int {
	v := new(big.Int)
	for i := 3; i >= 0; i-- {
		v.Lsh(v, 64).Or(v, new(big.Int).SetUint64(l[i]))
	}
	return v
}

func bigToLimbs(v *big.Int) [4]uint64 {
	b := v.FillBytes(make([]byte, 32))
	var out [4]uint64
	for i := 0; i < 4; i++ {
		for j := 0; j < 8; j++ {
			out[i] |= uint64(b[31-(8*i+j)]) << (8 * j)
		}
	}
	return out
}

// ---------------------------------------------------------------- scalars

func (m *M) SNew(r int)      { m.S[r] = secp256k1.NewScalar(); m.emit("SNew", kv{"r", r + 1}) }
func (m *M) SZero(r int)     { m.S[r].Zero(); m.emit("SZero", kv{"r", r + 1}) }
func (m *M) SOne(r int)      { m.S[r].One(); m.emit("SOne", kv{"r", r + 1}) }
func (m *M) SMinusOne(r int) { m.S[r].MinusOne(); m.emit("SMinusOne", kv{"r", r + 1}) }
func (m *M) SSetU64(r int, u uint64) {
	m.S[r].SetUInt64(u)
	m.emit("SSetU64", kv{"r", r + 1}, kv{"u", new(big.Int).SetUint64(u).FillBytes(make([]byte, 8))})
}
func (m *M) SSet(r, a int)  { m.S[r].Set(m.S[a]); m.emit("SSet", kv{"r", r + 1}, kv{"a", a + 1}) }
func (m *M) SSetNil(r int)  { m.S[r].Set(nil); m.emit("SSetNil", kv{"r", r + 1}) }
func (m *M) SCopy(r, a int) { m.S[r] = m.S[a].Copy(); m.emit("SCopy", kv{"r", r + 1}, kv{"a", a + 1}) }
func (m *M) SAdd(r, a int)  { m.S[r].Add(m.S[a]); m.emit("SAdd", kv{"r", r + 1}, kv{"a", a + 1}) }
func (m *M) SAddNil(r int)  { m.S[r].Add(nil); m.emit("SAddNil", kv{"r", r + 1}) }
func (m *M) SSub(r, a int)  { m.S[r].Subtract(m.S[a]); m.emit("SSub", kv{"r", r + 1}, kv{"a", a + 1}) }
func (m *M) SSubNil(r int)  { m.S[r].Subtract(nil); m.emit("SSubNil", kv{"r", r + 1}) }
func (m *M) SMul(r, a int)  { m.S[r].Multiply(m.S[a]); m.emit("SMul", kv{"r", r + 1}, kv{"a", a + 1}) }
func (m *M) SMulNil(r int)  { m.S[r].Multiply(nil); m.emit("SMulNil", kv{"r", r + 1}) }
func (m *M) SSquare(r int)  { m.S[r].Square(); m.emit("SSquare", kv{"r", r + 1}) }
func (m *M) SInvert(r int)  { m.S[r].Invert(); m.emit("SInvert", kv{"r", r + 1}) }
func (m *M) SPow(r, a int)  { m.S[r].Pow(m.S[a]); m.emit("SPow", kv{"r", r + 1}, kv{"a", a + 1}) }
func (m *M) SPowNil(r int)  { m.S[r].Pow(nil); m.emit("SPowNil", kv{"r", r + 1}) }

func (m *M) SEqual(a, b int) {
	ret := m.S[a].Equal(m.S[b])
	if ret < 0 || ret > 1 {
		ret = 2
	}
	m.emit("SEqual", kv{"a", a + 1}, kv{"b", b + 1}, kv{"ret", ret})
}
func (m *M) SEqualNil(a int) {
	ret := m.S[a].Equal(nil)
	if ret < 0 || ret > 1 {
		ret = 2
	}
	m.emit("SEqualNil", kv{"a", a + 1}, kv{"ret", ret})
}
func (m *M) SIsZero(a int) { m.emit("SIsZero", kv{"a", a + 1}, kv{"ret", m.S[a].IsZero()}) }
func (m *M) SIsOne(a int)  { m.emit("SIsOne", kv{"a", a + 1}, kv{"ret", m.S[a].IsOne()}) }
func (m *M) SLessOrEqual(a, b int) {
	m.emit("SLessOrEqual", kv{"a", a + 1}, kv{"b", b + 1}, kv{"ret", clamp(m.S[a].LessOrEqual(m.S[b]))})
}
func (m *M) SCSelect(r int, cond uint64, a, b int) {
	err := m.S[r].CSelect(cond, m.S[a], m.S[b])
	m.emit("SCSelect", kv{"r", r + 1}, kv{"cond", new(big.Int).SetUint64(cond).FillBytes(make([]byte, 8))},
		kv{"a", a + 1}, kv{"b", b + 1}, kv{"err", errFlag(err)})
}
func (m *M) SCSelectNil(r int, cond uint64, a int, which int) {
	var err error
	switch which {
	case 0:
		err = m.S[r].CSelect(cond, nil, m.S[a])
	case 1:
		err = m.S[r].CSelect(cond, m.S[a], nil)
	default:
		err = m.S[r].CSelect(cond, nil, nil)
	}
	m.emit("SCSelectNil", kv{"r", r + 1}, kv{"cond", new(big.Int).SetUint64(cond).FillBytes(make([]byte, 8))},
		kv{"a", a + 1}, kv{"which", which}, kv{"err", errFlag(err)})
}
func (m *M) SBits(a int) {
	bits := m.S[a].Bits()
	out := make([]int, len(bits))
	for i, b := range bits {
		out[i] = int(b)
	}
	m.emit("SBits", kv{"a", a + 1}, kv{"ret", out})
}
func (m *M) SEncode(a int) []byte {
	ret := m.S[a].Encode()
	m.emit("SEncode", kv{"a", a + 1}, kv{"ret", ret})
	return ret
}
func (m *M) SHex(a int) string {
	h := m.S[a].Hex()
	m.emit("SHex", kv{"a", a + 1}, kv{"ret", []byte(h)})
	return h
}
func (m *M) SMarshal(a int) {
	ret, err := m.S[a].MarshalBinary()
	m.emit("SMarshal", kv{"a", a + 1}, kv{"ret", ret}, kv{"err", errFlag(err)})
}

// scalar decode error classes, calibrated once per run from the three documented rejections
var errClassMsg [4]string

// learnScalarErrors records the messages of the three documented rejections (empty, wrong length,
// too big); later errors are classified against them.  Returns whether they are pairwise distinct.
func learnScalarErrors() bool {
	s := secp256k1.NewScalar()
	e1 := s.Decode(nil)
	e2 := s.Decode(make([]byte, 31))
	e3 := s.Decode(be32(bigN))
	msgs := [4]string{"", "", "", ""}
	distinct := e1 != nil && e2 != nil && e3 != nil
	if distinct {
		msgs[1], msgs[2], msgs[3] = e1.Error(), e2.Error(), e3.Error()
		distinct = msgs[1] != msgs[2] && msgs[1] != msgs[3] && msgs[2] != msgs[3]
	}
	errClassMsg = msgs
	return distinct
}

func (m *M) calibrateScalarErrors() {
	m.emit("SErrClasses", kv{"distinct", learnScalarErrors()})
}

func errClass(err error) int {
	if err == nil {
		return 0
	}
	for c := 1; c <= 3; c++ {
		if errClassMsg[c] != "" && err.Error() == errClassMsg[c] {
			return c
		}
	}
	return 4
}

func (m *M) SDecodeForm(r int, form string, data []byte) {
	var err error
	cp := append([]byte(nil), data...)
	if data == nil {
		cp = nil
	}
	op := ""
	panicked, _ := catch(func() {
		switch form {
		case "bytes":
			op = "SDecode"
			err = m.S[r].Decode(cp)
		case "unmarshal":
			op = "SUnmarshal"
			err = m.S[r].UnmarshalBinary(cp)
		case "hex":
			op = "SDecodeHex"
			err = m.S[r].DecodeHex(string(cp))
		}
	})
	ec := errClass(err)
	if form == "hex" && ec == 4 {
		// errors of the hexadecimal stage are wrapped; classify a wrapped documented error by its text
		for c := 1; c <= 3; c++ {
			if errClassMsg[c] != "" && err.Error() == errClassMsg[c] {
				ec = c
			}
		}
	}
	if panicked {
		ec = 9
	}
	isNil := data == nil
	if isNil {
		data = []byte{}
	}
	m.emit(op, kv{"r", r + 1}, kv{"data", data}, kv{"nil", isNil}, kv{"err", ec})
}

// SSetInt puts a canonical integer < n into S[r] by writing its Montgomery form (no decoder involved).
func (m *M) SSetInt(r int, v *big.Int) {
	mustBeBelow(v, bigN, "SSetInt")
	setScalar(m.S[r], v)
	m.emit("SSetInt", kv{"r", r + 1}, kv{"v", be32(v)})
}

func (m *M) Order()       { m.emit("Order", kv{"ret", secp256k1.Order()}) }
func (m *M) Ciphersuite() { m.emit("Ciphersuite", kv{"ret", []byte(secp256k1.Ciphersuite())}) }
func (m *M) Lengths() {
	m.emit("Lengths", kv{"scalar", secp256k1.ScalarLength()}, kv{"element", secp256k1.ElementLength()})
}
