package main

// Re-execution of a recorded history against the current tree: the scenario file is a trace (or the
// part of one that a replay file holds); only the calls and their inputs are taken from it, every
// result and observation is recorded anew from the real code.

import (
	"bufio"
	"encoding/json"
	"fmt"
	"math/big"
	"os"
)

func jb(v any) []byte {
	arr, ok := v.([]any)
	if !ok {
		return nil
	}
	out := make([]byte, len(arr))
	for i, x := range arr {
		out[i] = byte(x.(float64))
	}
	return out
}

func ji(ev map[string]any, k string) int {
	f, ok := ev[k].(float64)
	if !ok {
		return 0
	}
	return int(f) - 1
}

func jbig(v any) *big.Int { return new(big.Int).SetBytes(jb(v)) }

func ju64(v any) uint64 { return new(big.Int).SetBytes(jb(v)).Uint64() }

func runScenario(m *M, path string) error {
	f, err := os.Open(path)
	if err != nil {
		return err
	}
	defer f.Close()
	sc := bufio.NewScanner(f)
	sc.Buffer(make([]byte, 1<<20), 1<<28)
	started := false
	for sc.Scan() {
		var ev map[string]any
		if err := json.Unmarshal(sc.Bytes(), &ev); err != nil {
			return err
		}
		op, _ := ev["op"].(string)
		if op == "Header" {
			continue
		}
		if !started && op != "Reset" {
			m.reset()
		}
		started = true
		r, a, b, s := ji(ev, "r"), ji(ev, "a"), ji(ev, "b"), ji(ev, "s")
		switch op {
		case "Reset":
			m.reset()
		case "ENew":
			m.ENew(r)
		case "EIdentity":
			m.EIdentity(r)
		case "EBase":
			m.EBase(r)
		case "ESet":
			m.ESet(r, a)
		case "ECopy":
			m.ECopy(r, a)
		case "EAdd":
			m.EAdd(r, a)
		case "EAddNil":
			m.EAddNil(r)
		case "ESub":
			m.ESub(r, a)
		case "ESubNil":
			m.ESubNil(r)
		case "EDouble":
			m.EDouble(r)
		case "ENegate":
			m.ENegate(r)
		case "EMul":
			m.EMul(r, s)
		case "EMulNil":
			m.EMulNil(r)
		case "EEqual":
			m.EEqual(a, b)
		case "EIsIdentity":
			m.EIsIdentity(a)
		case "EEncode":
			m.EEncode(a)
		case "EEncodeUnc":
			m.EEncodeUnc(a)
		case "EXCoord":
			m.EXCoord(a)
		case "EHex":
			m.EHex(a)
		case "EMarshal":
			m.EMarshal(a)
		case "EDecode":
			m.EDecodeForm(r, "any", jb(ev["data"]))
		case "EUnmarshal":
			m.EDecodeForm(r, "unmarshal", jb(ev["data"]))
		case "EDecodeComp":
			m.EDecodeForm(r, "comp", jb(ev["data"]))
		case "EDecodeUnc":
			m.EDecodeForm(r, "unc", jb(ev["data"]))
		case "EDecodeHex":
			m.EDecodeForm(r, "hex", jb(ev["data"]))
		case "EDecodeOf": // decode, into r, what one of the encoders returns for a (a TLC-generated round trip)
			var enc []byte
			if f, _ := ev["form"].(string); f == "unc" {
				enc = m.EEncodeUnc(a)
			} else {
				enc = m.EEncode(a)
			}
			m.EDecodeForm(r, "any", enc)
		case "EDecodeCoords":
			m.EDecodeCoords(r, jb(ev["x"]), jb(ev["y"]))
		case "ESetRaw":
			if !m.raw {
				return fmt.Errorf("scenario needs the raw-coordinate accessor, which does not build against this tree")
			}
			m.ESetRaw(r, jbig(ev["x"]), jbig(ev["y"]), jbig(ev["z"]))
		case "ERescale":
			if !m.raw {
				return fmt.Errorf("scenario needs the raw-coordinate accessor, which does not build against this tree")
			}
			m.ERescale(r, jbig(ev["lam"]))
		case "EHashToGroup":
			m.EHashToGroup(r, jb(ev["msg"]), jb(ev["dst"]))
		case "EEncodeToGroup":
			m.EEncodeToGroup(r, jb(ev["msg"]), jb(ev["dst"]))
		case "SNew":
			m.SNew(r)
		case "SZero":
			m.SZero(r)
		case "SOne":
			m.SOne(r)
		case "SMinusOne":
			m.SMinusOne(r)
		case "SSetU64":
			m.SSetU64(r, ju64(ev["u"]))
		case "SSet":
			m.SSet(r, a)
		case "SSetNil":
			m.SSetNil(r)
		case "SCopy":
			m.SCopy(r, a)
		case "SAdd":
			m.SAdd(r, a)
		case "SAddNil":
			m.SAddNil(r)
		case "SSub":
			m.SSub(r, a)
		case "SSubNil":
			m.SSubNil(r)
		case "SMul":
			m.SMul(r, a)
		case "SMulNil":
			m.SMulNil(r)
		case "SSquare":
			m.SSquare(r)
		case "SInvert":
			m.SInvert(r)
		case "SPow":
			m.SPow(r, a)
		case "SPowNil":
			m.SPowNil(r)
		case "SEqual":
			m.SEqual(a, b)
		case "SEqualNil":
			m.SEqualNil(a)
		case "SIsZero":
			m.SIsZero(a)
		case "SIsOne":
			m.SIsOne(a)
		case "SLessOrEqual":
			m.SLessOrEqual(a, b)
		case "SCSelect":
			m.SCSelect(r, ju64(ev["cond"]), a, b)
		case "SCSelectNil":
			m.SCSelectNil(r, ju64(ev["cond"]), a, ji(ev, "which")+1)
		case "SBits":
			m.SBits(a)
		case "SEncode":
			m.SEncode(a)
		case "SHex":
			m.SHex(a)
		case "SMarshal":
			m.SMarshal(a)
		case "SDecode", "SUnmarshal", "SDecodeHex":
			data := jb(ev["data"])
			if isNil, _ := ev["nil"].(bool); isNil {
				data = nil
			}
			m.SDecodeForm(r, map[string]string{"SDecode": "bytes", "SUnmarshal": "unmarshal", "SDecodeHex": "hex"}[op], data)
		case "SErrClasses":
			m.calibrateScalarErrors()
		case "SSetInt":
			m.SSetInt(r, jbig(ev["v"]))
		case "SHashToScalar":
			m.SHashToScalar(r, jb(ev["msg"]), jb(ev["dst"]))
		case "SRandom":
			var chunks []int
			if arr, ok := ev["chunks"].([]any); ok {
				for _, x := range arr {
					chunks = append(chunks, int(x.(float64)))
				}
			}
			m.SRandom(r, jb(ev["data"]), chunks)
		case "Order":
			m.Order()
		case "Lengths":
			m.Lengths()
		case "Ciphersuite":
			m.Ciphersuite()
		default:
			return fmt.Errorf("scenario: cannot re-execute op %q", op)
		}
	}
	return sc.Err()
}
