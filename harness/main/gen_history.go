package main

import "math/big"

// genC10: random histories over the whole API with heavy aliasing.  Every event logs the whole pool,
// so "operands that are not the receiver never change" and "copies are independent" are checked by
// the validator at every step.
func genC10(m *M, histories, length int) {
	ne, ns := len(m.E), len(m.S)
	for h := 0; h < histories; h++ {
		m.reset()
		// start from a mix of constructions
		for v := 0; v < ne; v++ {
			switch m.rng.Intn(5) {
			case 0:
				m.EBase(v)
			case 1:
				x, y := m.randPoint()
				m.putPoint(v, x, y, m.anyLam())
			case 2:
				x, y := m.randPoint()
				m.EDecodeForm(v, "any", append([]byte{byte(2 + y.Bit(0))}, be32(x)...))
			case 3:
				m.putIdentity(v, m.rng.Intn(4))
			}
		}
		for v := 0; v < ns; v++ {
			m.putScalar(v, []string{"zero", "one", "two", "three", "small", "small", "minus_one", "random", "mont_near_const", "mont_window"}[m.rng.Intn(10)])
		}
		// SYSTEMATIC part (own random stream): one related scalar pair per history through the comparisons
		m.withAux(func() {
			ca, _, a, b := m.scalarPair()
			m.class("history:scalar_pair_" + ca)
			m.SSetInt(0, a)
			m.SSetInt(1, b)
			m.SEqual(0, 1)
			m.SEqual(1, 0)
			m.SLessOrEqual(0, 1)
			m.SIsOne(0)
			m.SIsZero(1)
		})
		fullMuls, pows := 0, 0
		for i := 0; i < length; i++ {
			r, a := m.rng.Intn(ne), m.rng.Intn(ne)
			sr, sa := m.rng.Intn(ns), m.rng.Intn(ns)
			if m.rng.Intn(3) == 0 {
				a = r // aliasing on purpose
			}
			if m.rng.Intn(3) == 0 {
				sa = sr
			}
			switch m.rng.Intn(54) {
			case 52:
				// a second variable RELATED to an existing one as affine points: the same point, its negative, or one of its two
				// siblings with the same y (beta x, y) -- decoded, so Z = 1 -- and at once combined with it
				if enc := m.E[a].EncodeUncompressed(); len(enc) == 65 {
					x, y := new(big.Int).SetBytes(enc[1:33]), new(big.Int).SetBytes(enc[33:])
					switch m.rng.Intn(4) {
					case 0:
						x = mulmod(x, beta, bigP)
					case 1:
						x = mulmod(mulmod(x, beta, bigP), beta, bigP)
					case 2:
						y = new(big.Int).Sub(bigP, y)
					}
					r2 := (a + 1 + m.rng.Intn(ne-1)) % ne
					m.class("history:related_affine_pair")
					m.EDecodeCoords(r2, be32(x), be32(y))
					if m.rng.Intn(2) == 0 {
						m.EDecodeForm(a, "any", enc) // the first one affine too
					}
					switch m.rng.Intn(3) {
					case 0:
						m.EAdd(r2, a)
					case 1:
						m.EAdd(a, r2)
					default:
						m.ESub(r2, a)
					}
					m.EEqual(r2, a)
				}
			case 53:
				// a full-width multiplication by a scalar that is special only in its STORED form, or a constant of the curve
				if fullMuls < 2 {
					fullMuls++
					m.putScalar(sa, []string{"mont_window", "mont_near_const", "curve_constant", "word_structure"}[m.rng.Intn(4)])
					m.EMul(r, sa)
				}
			case 40:
				if pows < 1 { // the validator's square-and-multiply is 256 steps whatever the exponent
					pows++
					m.SPow(sr, sa)
				} else {
					m.SSquare(sr)
				}
			case 41:
				m.SCSelect(sr, []uint64{0, 1, 2, 1 << 63, m.rng.Uint64()}[m.rng.Intn(5)], sa, m.rng.Intn(ns))
			case 42:
				m.SLessOrEqual(sr, sa)
				m.SIsOne(sa)
			case 43:
				m.SBits(sa)
			case 44:
				m.EEncodeToGroup(r, m.randBytes(m.rng.Intn(20)), m.dstOf(1+m.rng.Intn(30)))
			case 45:
				h := m.EHex(a)
				m.EDecodeForm(r, "hex", []byte(h))
			case 46:
				h := m.SHex(sa)
				m.SDecodeForm(sr, "hex", []byte(h))
			case 47:
				m.SMarshal(sa)
				m.EMarshal(a)
				m.EXCoord(a)
			case 48:
				switch m.rng.Intn(6) {
				case 0:
					m.SPowNil(sr)
				case 1:
					m.SMulNil(sr)
				case 2:
					m.SAddNil(sr)
				case 3:
					m.SSubNil(sr)
				case 4:
					m.SSetNil(sr)
				default:
					m.SEqualNil(sr)
				}
			case 49:
				m.Order()
				m.Lengths()
				m.Ciphersuite()
			case 50:
				m.SDecodeForm(sr, "bytes", be32(bigN)) // rejected
				m.SDecodeForm(sr, "unmarshal", m.randBytes(31))
			case 51:
				x, y := m.randPoint()
				m.EDecodeCoords(r, be32(x), be32(y))
			case 0:
				m.ENew(r)
			case 1:
				m.EIdentity(r)
			case 2:
				m.EBase(r)
			case 3, 4:
				m.ESet(r, a)
			case 5, 6:
				m.ECopy(r, a)
			case 7, 8, 9, 10:
				m.EAdd(r, a)
			case 11, 12, 13:
				m.ESub(r, a)
			case 14, 15:
				m.EDouble(r)
			case 16, 17:
				m.ENegate(r)
			case 18, 19:
				// multiply by a small scalar most of the time (the validator's ladder is as long as the scalar)
				if small := isSmall(m.S[sa].Encode()); small || (fullMuls < 1 && h%3 == 0) {
					if !small {
						fullMuls++
					}
					m.EMul(r, sa)
				} else {
					m.SSetU64(sa, uint64(m.rng.Intn(1<<12)))
					m.EMul(r, sa)
				}
			case 20:
				m.EMulNil(r)
			case 21:
				m.EAddNil(r)
				m.ESubNil(a)
			case 22:
				m.EEqual(r, a)
			case 23:
				m.EIsIdentity(r)
			case 24:
				enc := m.EEncode(a)
				m.EDecodeForm(r, "any", enc)
			case 25:
				unc := m.EEncodeUnc(a)
				m.EDecodeForm(r, []string{"any", "unc", "unmarshal"}[m.rng.Intn(3)], unc)
			case 26: // a rejected decode must leave the receiver alone
				bad := append([]byte{byte(2 + m.rng.Intn(2))}, be32(m.offCurveX())...)
				m.EDecodeForm(r, "any", bad)
			case 27:
				if m.rng.Intn(4) == 0 {
					m.EHashToGroup(r, m.randBytes(m.rng.Intn(40)), m.dstOf(1+m.rng.Intn(40)))
				} else {
					m.SAdd(sr, sa)
				}
			case 28:
				if m.raw {
					m.ERescale(r, m.lambda(m.anyLam()))
				} else {
					m.EDouble(r)
				}
			case 29:
				m.SAdd(sr, sa)
			case 30:
				m.SSub(sr, sa)
			case 31:
				m.SMul(sr, sa)
			case 32:
				m.SSquare(sr)
			case 33:
				m.SInvert(sr)
			case 34:
				m.SSet(sr, sa)
			case 35:
				m.SCopy(sr, sa)
			case 36:
				m.SIsZero(sr)
				m.SEqual(sr, sa)
				if m.rng.Intn(3) == 0 { // a value whose stored limbs differ from another variable's in one bit / limb
					_, _, va, vb := m.scalarPair()
					m.SSetInt(sr, va)
					m.SSetInt(sa, vb)
					m.SEqual(sr, sa)
					m.SIsOne(sr)
				}
			case 37:
				switch m.rng.Intn(4) {
				case 0:
					m.SZero(sr)
				case 1:
					m.SOne(sr)
				case 2:
					m.SMinusOne(sr)
				default:
					m.SSetU64(sr, uint64(m.rng.Intn(1<<16)))
				}
			case 38:
				enc := m.SEncode(sa)
				m.SDecodeForm(sr, "bytes", enc)
			case 39:
				if m.rng.Intn(6) == 0 {
					m.SHashToScalar(sr, m.randBytes(m.rng.Intn(40)), m.dstOf(1+m.rng.Intn(40)))
				} else {
					m.SNew(sr)
				}
			}
		}
	}
}

// isSmall: the scalar is below 2^24 (its ladder in the validator is short).
func isSmall(enc []byte) bool {
	if len(enc) != 32 {
		return false
	}
	for _, b := range enc[:29] {
		if b != 0 {
			return false
		}
	}
	return true
}
