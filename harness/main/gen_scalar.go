package main

import (
	"math/big"
)

// operand pairs whose sum / difference / product lands next to a multiple of n before reduction
func (m *M) scalarPair() (string, string, *big.Int, *big.Int) {
	switch m.rng.Intn(17) {
	case 14, 15, 16: // chosen for their RESULT: the stored form of a*b, a^2, a+b or a-b is a boundary / structured value
		t, _ := m.resultTarget(bigN)
		t = mulmod(t, rInvN, bigN)
		a := m.randBig(bigN)
		if a.Sign() == 0 {
			a.SetInt64(3)
		}
		switch m.rng.Intn(4) {
		case 0:
			return "product_structured", "", a, mulmod(t, new(big.Int).ModInverse(a, bigN), bigN)
		case 1:
			if r := new(big.Int).ModSqrt(t, bigN); r != nil {
				return "square_structured", "", r, r
			}
			return "sum_structured", "", a, new(big.Int).Mod(new(big.Int).Sub(t, a), bigN)
		case 2:
			return "sum_structured", "", a, new(big.Int).Mod(new(big.Int).Sub(t, a), bigN)
		default:
			return "difference_structured", "", a, new(big.Int).Mod(new(big.Int).Sub(a, t), bigN)
		}
	case 12, 13: // the STORED limbs differ by a STRUCTURED xor pattern: equal / related limb differences, some limbs untouched
		for try := 0; try < 8; try++ {
			wa := new(big.Int).Mod(new(big.Int).Mul(m.randBig(bigN), bigR), bigN)
			if m.rng.Intn(4) == 0 {
				wa = new(big.Int).Mod(m.nearMontConst(bigN), bigN)
			}
			wb := new(big.Int).Xor(wa, m.limbStruct())
			if wb.Cmp(bigN) < 0 {
				return "mont_limbs_xor_structured", "", mulmod(wa, rInvN, bigN), mulmod(wb, rInvN, bigN)
			}
		}
		a := m.randBig(bigN)
		return "random", "random", a, m.randBig(bigN)
	case 10, 11: // the STORED (Montgomery) limbs of the two values differ in one bit, or in one limb only
		wa := new(big.Int).Mod(new(big.Int).Mul(m.randBig(bigN), bigR), bigN)
		if m.rng.Intn(2) == 0 {
			wa = new(big.Int).Mod(m.nearMontConst(bigN), bigN)
		}
		wb := new(big.Int).Set(wa)
		if m.rng.Intn(2) == 0 {
			i := m.rng.Intn(256)
			wb.SetBit(wb, i, wb.Bit(i)^1)
		} else {
			sh := uint(64 * m.rng.Intn(4))
			wb.Xor(wb, new(big.Int).Lsh(new(big.Int).SetUint64(m.rng.Uint64()), sh))
		}
		wb.Mod(wb, bigN)
		return "mont_limb_neighbours", "", mulmod(wa, rInvN, bigN), mulmod(wb, rInvN, bigN)
	case 8, 9: // the two values share their low 64-bit limbs and differ in an upper one (or only there)
		b := m.randBig(bigN)
		if m.rng.Intn(2) == 0 {
			b = big.NewInt(int64(m.rng.Intn(16)))
		}
		j := uint(64 * (1 + m.rng.Intn(3)))
		b.Mod(b, new(big.Int).Lsh(one, j)) // keep only the limbs below j
		d := new(big.Int).Lsh(big.NewInt(int64(1+m.rng.Intn(3))), j)
		a := new(big.Int).Add(b, d)
		if m.rng.Intn(3) == 0 { // and a lower limb where the larger value is SMALLER
			if j >= 128 {
				a.Sub(a, new(big.Int).Lsh(one, j-64))
				a.Add(a, big.NewInt(0))
				b.Add(b, new(big.Int).Lsh(one, j-64))
			}
		}
		a.Mod(a, bigN)
		b.Mod(b, bigN)
		return "same_low_limbs", "", a, b
	case 0: // a + b in [n-2, n+2]
		a := m.randBig(bigN)
		b := new(big.Int).Sub(bigN, a)
		b.Add(b, big.NewInt(int64(m.rng.Intn(5)-2))).Mod(b, bigN)
		return "sum_near_n", "", a, b
	case 1: // a - b in [-2, 2]
		a := m.randBig(bigN)
		b := new(big.Int).Add(a, big.NewInt(int64(m.rng.Intn(5)-2)))
		b.Mod(b, bigN)
		return "diff_near_0", "", a, b
	case 2: // a * b = +-1, +-2 mod n
		a := m.randBig(bigN)
		if a.Sign() == 0 {
			a.SetInt64(5)
		}
		t := big.NewInt(int64(m.rng.Intn(5) - 2))
		t.Mod(t, bigN)
		b := new(big.Int).ModInverse(a, bigN)
		b.Mul(b, t).Mod(b, bigN)
		return "prod_near_0", "", a, b
	default:
		ca, cb := m.anyScalarClass(), m.anyScalarClass()
		return ca, cb, m.scalarOf(ca), m.scalarOf(cb)
	}
}

// genC06: ring operations over operand classes, with every aliasing.
func genC06(m *M, budget int) {
	m.corpusScalar("C06")
	budget += m.events
	hist := 0
	for m.events < budget {
		m.reset()
		hist++
		// SYSTEMATIC (own random stream): every boundary-window kind in turn, as the STORED form of an operand and as the
		// stored form of the result of each ring operation
		budget += m.withAux(func() {
			w, wc := m.windowKind(hist)
			m.class("window_walk:" + wc)
			a := mulmod(new(big.Int).Mod(w, bigN), rInvN, bigN)
			b := m.randBig(bigN)
			for op := 0; op < 4; op++ {
				m.SSetInt(0, a)
				m.SSetInt(1, b)
				switch op {
				case 0:
					m.SMul(0, 1)
				case 1:
					m.SSquare(0)
				case 2:
					m.SAdd(0, 1)
				default:
					m.SSub(1, 0)
				}
			}
			if b.Sign() != 0 { // results
				m.SSetInt(0, b)
				m.SSetInt(1, mulmod(a, new(big.Int).ModInverse(b, bigN), bigN))
				m.SMul(0, 1)
				m.SSetInt(0, b)
				m.SSetInt(1, new(big.Int).Mod(new(big.Int).Sub(a, b), bigN))
				m.SAdd(0, 1)
				m.SSetInt(0, b)
				m.SSetInt(1, new(big.Int).Mod(new(big.Int).Sub(b, a), bigN))
				m.SSub(0, 1)
				if r := new(big.Int).ModSqrt(a, bigN); r != nil {
					m.SSetInt(0, r)
					m.SSquare(0)
				}
			}
		})
		for i := 0; i < 8; i++ {
			ca, cb, a, b := m.scalarPair()
			m.class("scalar:" + ca)
			if cb != "" {
				m.class("scalar:" + cb)
			}
			m.SSetInt(0, a)
			m.SSetInt(1, b)
			m.SSet(2, 0)
			switch m.rng.Intn(12) {
			case 0:
				m.SAdd(0, 1)
				m.SAdd(2, 2) // aliasing
			case 1:
				m.SSub(0, 1)
				m.SSub(2, 2)
				m.SSub(1, 0)
			case 2:
				m.SMul(0, 1)
				m.SMul(2, 2)
			case 3:
				m.SSquare(0)
				m.SSquare(1)
			case 4:
				m.SInvert(0)
				m.SMul(0, 2) // s^-1 * s
				m.SIsOne(0)
				m.SInvert(1)
			case 5:
				m.SAddNil(0)
				m.SSubNil(1)
				m.SMulNil(2)
				m.SSetNil(1)
			case 6:
				m.SSetU64(0, []uint64{0, 1, 2, 1 << 32, 1 << 63, ^uint64(0), m.rng.Uint64()}[m.rng.Intn(7)])
				m.SAdd(0, 1)
			case 7:
				m.SZero(0)
				m.SOne(1)
				m.SMinusOne(2)
				m.SAdd(2, 1) // -1 + 1
				m.SIsZero(2)
				m.SMinusOne(2)
				m.SSquare(2) // (-1)^2
				m.SIsOne(2)
			case 8:
				m.SCopy(2, 1)
				m.SAdd(2, 0)
				m.SSub(2, 1) // back to a
				m.SEqual(2, 0)
			case 9:
				// Pow: exponent classes keep the validator's square-and-multiply cheap most of the time
				ec := []string{"zero", "one", "two", "three", "small", "pow2", "minus_one", "minus_two", "random"}[m.rng.Intn(9)]
				m.class("exponent:" + ec)
				m.SSetInt(1, m.scalarOf(ec))
				m.SPow(0, 1)
			case 10:
				m.SPowNil(0)
				m.SPow(1, 1) // aliasing
			case 11:
				m.SAdd(0, 1)
				m.SMul(0, 0)
				m.SSub(0, 1)
				m.SInvert(0)
			}
		}
	}
}

// genC07: scalar codec.
func genC07(m *M, budget int) {
	m.corpusScalar("C07")
	budget += m.events
	for m.events < budget {
		m.reset()
		m.calibrateScalarErrors()
		for i := 0; i < 30; i++ {
			var data []byte
			cls := ""
			switch m.rng.Intn(18) {
			case 14, 15, 16, 17: // every limb independently n's limb, n's limb +-1, 0 or all ones (above and below n)
				cls, data = "limbwise_neighbour_of_n", be32(m.limbwiseNeighbour(bigN))
			case 0:
				cls, data = "nil", nil
			case 1:
				cls, data = "empty", []byte{}
			case 2:
				l := []int{1, 16, 31, 33, 48, 64}[m.rng.Intn(6)]
				cls, data = "wrong_length", m.randBytes(l)
			case 3:
				cls, data = "n", be32(bigN)
			case 4:
				cls, data = "n_plus_small", be32(new(big.Int).Add(bigN, big.NewInt(int64(1+m.rng.Intn(3)))))
			case 5:
				cls, data = "n_minus_small", be32(new(big.Int).Sub(bigN, big.NewInt(int64(1+m.rng.Intn(3)))))
			case 6:
				cls, data = "max", be32(new(big.Int).Sub(bigR, one))
			case 7: // n with one 64-bit limb altered by +-1
				v := new(big.Int).Set(bigN)
				d := new(big.Int).Lsh(one, uint(64*m.rng.Intn(4)))
				if m.rng.Intn(2) == 0 {
					v.Add(v, d)
				} else {
					v.Sub(v, d)
				}
				if v.Cmp(bigR) >= 0 {
					v.Sub(bigR, one)
				}
				cls, data = "n_limb_altered", be32(v)
			case 8:
				cls, data = "zero", make([]byte, 32)
			case 9: // between n and 2^256
				v := m.randBig(new(big.Int).Sub(bigR, bigN))
				cls, data = "above_n", be32(v.Add(v, bigN))
			default:
				c := m.anyScalarClass()
				cls, data = "valid:"+c, be32(m.scalarOf(c))
			}
			m.class("input:" + cls)
			form := []string{"bytes", "bytes", "unmarshal", "hex"}[m.rng.Intn(4)]
			if form == "hex" {
				hx := []byte(hexString(data))
				switch m.rng.Intn(8) {
				case 0:
					hx = []byte(upper(string(hx)))
				case 1:
					if len(hx) > 0 {
						hx = hx[:len(hx)-1]
					}
				case 2:
					if len(hx) > 0 {
						hx[m.rng.Intn(len(hx))] = 'g'
					}
				}
				data = hx
			}
			m.SDecodeForm(0, form, data)
			if i%4 == 3 { // the encoding must follow the value through every mutator (Set, Copy, arithmetic, CSelect)
				m.SEncode(0)
				m.putScalar(1, m.anyScalarClass())
				switch m.rng.Intn(5) {
				case 0:
					m.SSet(0, 1)
				case 1:
					m.SCopy(0, 1)
				case 2:
					m.SAdd(0, 1)
				case 3:
					m.SCSelect(0, 1, 0, 1)
				default:
					m.SMul(0, 1)
				}
				m.SHex(0)
			}
			// Encode o Decode and the other views
			enc := m.SEncode(0)
			h := m.SHex(0)
			m.SMarshal(0)
			if m.rng.Intn(2) == 0 {
				m.SDecodeForm(1, "bytes", enc)
				m.SEqual(0, 1)
				m.SDecodeForm(2, "hex", []byte(h))
				m.SEqual(0, 2)
			}
		}
	}
}

// genC13: comparisons and conditional selection.
func genC13(m *M, budget int) {
	m.corpusScalar("C13")
	budget += m.events
	conds := []uint64{0, 1, 2, 3, 1 << 32, 1 << 63, ^uint64(0), 0xfffffffffffffffe, 1 << 1, 1 << 8,
		// relations between the two 32-bit halves / the four 16-bit quarters (folding and truncation slips)
		0x8000000080000000, 0xffffffff00000001, 0x00000001ffffffff, 0x0000000100000001, 0xffffffffffff0000, 0x0001000000000000,
		0x7fffffff80000001, 0xaaaaaaaa55555556, 0x0000ffff00000000, 0x00000000ffffffff, 0xffffffff00000000}
	for m.events < budget {
		m.reset()
		for i := 0; i < 12; i++ {
			ca, cb, a, b := m.scalarPair()
			m.class("scalar:" + ca)
			if cb != "" {
				m.class("scalar:" + cb)
			}
			m.SSetInt(0, a)
			m.SSetInt(1, b)
			m.SLessOrEqual(0, 1)
			m.SLessOrEqual(1, 0)
			m.SLessOrEqual(0, 0)
			m.SEqual(0, 1)
			m.SEqual(1, 0)
			m.SIsZero(0)
			m.SIsOne(1)
			c := conds[m.rng.Intn(len(conds))]
			switch m.rng.Intn(6) {
			case 0:
				c = m.rng.Uint64()
			case 1: // halves that cancel under addition / xor
				h := uint64(m.rng.Uint32())
				c = h<<32 | uint64(uint32(-int32(h)))
			case 2:
				h := uint64(m.rng.Uint32())
				c = h<<32 | h
			}
			m.SCSelect(2, c, 0, 1)
			m.SCSelect(0, c, 0, 1) // receiver is the first operand
			m.SSetInt(0, a)
			m.SCSelect(1, c, 0, 1) // receiver is the second operand
			m.SSetInt(1, b)
			m.SCSelect(1, c^1, 1, 1)
			m.SSetInt(2, a)
			m.SCSelect(2, c, 2, 2)
			m.SCSelectNil(2, c, 0, m.rng.Intn(3))
			if m.rng.Intn(4) == 0 {
				m.SEqualNil(0)
				m.SCopy(2, 0)
				m.SEqual(2, 0)
				m.SLessOrEqual(2, 0)
			}
		}
		// values whose STORED limbs are those of 0, 1 or -1 with a bit or a limb changed: the zero / one / equality
		// tests work on the stored limbs
		for i := 0; i < 10; i++ {
			m.putScalar(0, "mont_near_const")
			m.SIsOne(0)
			m.SIsZero(0)
			switch i % 3 {
			case 0:
				m.SOne(1)
			case 1:
				m.SZero(1)
			default:
				m.SMinusOne(1)
			}
			m.SEqual(0, 1)
			m.SEqual(1, 0)
			m.SLessOrEqual(0, 1)
		}
	}
}

// genC14: bit expansion.
func genC14(m *M, budget int) {
	m.corpusScalar("C14")
	budget += m.events
	i := 0
	for m.events < budget {
		m.reset()
		for j := 0; j < 20; j++ {
			if i < 256 {
				m.class("scalar:pow2_each")
				m.SSetInt(0, new(big.Int).Lsh(one, uint(i)))
				i++
			} else {
				m.putScalar(0, m.anyScalarClass())
			}
			m.SBits(0)
			if m.rng.Intn(4) == 0 { // on a value produced by arithmetic rather than set directly
				m.putScalar(1, m.anyScalarClass())
				m.SMul(0, 1)
				m.SBits(0)
				m.SSub(0, 1)
				m.SBits(0)
			}
		}
	}
}
