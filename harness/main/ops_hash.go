package main

import (
	"crypto/rand"
	"errors"
	"io"
	"math/big"

	"github.com/bytemare/secp256k1"
)

func cloneOrNil(b []byte) []byte {
	if b == nil {
		return nil
	}
	return append([]byte{}, b...)
}

// record returns msg and dst as adjacent windows of ONE buffer, as a caller parsing a received record
// would pass them: msg = rec[:n] has spare capacity that runs over dst = rec[n:].
func record(msg, dst []byte) ([]byte, []byte) {
	rec := append(append(make([]byte, 0, len(msg)+len(dst)+8), msg...), dst...)
	return rec[:len(msg)], rec[len(msg):]
}

// recordDstFirst: the same, with the DST in front: dst = rec[:k] has spare capacity that IS the message.
func recordDstFirst(msg, dst []byte) ([]byte, []byte) {
	rec := append(append(make([]byte, 0, len(msg)+len(dst)+8), dst...), msg...)
	return rec[len(dst):], rec[:len(dst)]
}

func orEmpty(b []byte) []byte {
	if b == nil {
		return []byte{}
	}
	return b
}

func (m *M) EHashToGroup(r int, msg, dst []byte) {
	msg0, dst0 := cloneOrNil(msg), cloneOrNil(dst) // what the caller passed, as it was BEFORE the call
	cert, cls := h2cCert(msg, dst, true)
	m.class("gx1:" + cls)
	var out *secp256k1.Element
	panicked, _ := catch(func() { out = secp256k1.HashToGroup(msg, dst) })
	if !panicked {
		m.E[r] = out
	}
	m.emit("EHashToGroup", kv{"r", r + 1}, kv{"msg", orEmpty(msg0)}, kv{"dst", orEmpty(dst0)}, kv{"cert", cert}, kv{"panic", panicked})
}

func (m *M) EEncodeToGroup(r int, msg, dst []byte) {
	msg0, dst0 := cloneOrNil(msg), cloneOrNil(dst) // what the caller passed, as it was BEFORE the call
	cert, cls := h2cCert(msg, dst, false)
	m.class("gx1:" + cls)
	var out *secp256k1.Element
	panicked, _ := catch(func() { out = secp256k1.EncodeToGroup(msg, dst) })
	if !panicked {
		m.E[r] = out
	}
	m.emit("EEncodeToGroup", kv{"r", r + 1}, kv{"msg", orEmpty(msg0)}, kv{"dst", orEmpty(dst0)}, kv{"cert", cert}, kv{"panic", panicked})
}

func (m *M) SHashToScalar(r int, msg, dst []byte) {
	msg0, dst0 := cloneOrNil(msg), cloneOrNil(dst)
	var out *secp256k1.Scalar
	panicked, _ := catch(func() { out = secp256k1.HashToScalar(msg, dst) })
	if !panicked {
		m.S[r] = out
	}
	m.emit("SHashToScalar", kv{"r", r + 1}, kv{"msg", orEmpty(msg0)}, kv{"dst", orEmpty(dst0)}, kv{"panic", panicked})
}

// ---------------------------------------------------------------- Scalar.Random over a scripted entropy source

// scriptedReader delivers the bytes of data in order, at most chunks[i] bytes on the i-th Read (the
// chunking is a schedule; a zero-size chunk is a Read returning 0, nil); once data is exhausted every
// Read fails.  failWithLast makes the failure arrive together with the last bytes.
type scriptedReader struct {
	data      []byte
	chunks    []int
	pos, call int
	delivered int
}

var errScripted = errors.New("verif: scripted entropy source failure")

func (s *scriptedReader) Read(p []byte) (int, error) {
	if s.pos >= len(s.data) {
		return 0, errScripted
	}
	n := len(p)
	if s.call < len(s.chunks) && s.chunks[s.call] < n {
		n = s.chunks[s.call]
	}
	s.call++
	if n > len(s.data)-s.pos {
		n = len(s.data) - s.pos
	}
	copy(p, s.data[s.pos:s.pos+n])
	s.pos += n
	s.delivered += n
	return n, nil
}

var _ io.Reader = (*scriptedReader)(nil)

// SRandom runs Scalar.Random with crypto/rand.Reader replaced by the script.
func (m *M) SRandom(r int, data []byte, chunks []int) {
	sr := &scriptedReader{data: data, chunks: chunks}
	saved := rand.Reader
	rand.Reader = sr
	panicked, _ := catch(func() { m.S[r].Random() })
	rand.Reader = saved
	m.emit("SRandom", kv{"r", r + 1}, kv{"data", orEmpty(data)}, kv{"panic", panicked}, kv{"delivered", sr.delivered}, kv{"chunks", append([]int{}, chunks...)})
}

var chunkClasses = []string{"whole", "whole", "1+31", "31+1", "16+16", "bytes", "zero_reads", "random", "big"}
var blockClasses = []string{"zero", "n", "one", "n_minus_1", "n_plus_1", "max", "two_n_wrap", "random", "random", "top_limb_n", "stored_limb_struct", "stored_limb_struct", "stored_limb_struct", "limbwise_n"}

func (m *M) chunksOf(class string, total int) []int {
	var out []int
	switch class {
	case "whole":
		return nil // every Read gets all it asks for
	case "big":
		return []int{1 << 20}
	case "1+31":
		for i := 0; i < total; i += 32 {
			out = append(out, 1, 31)
		}
	case "31+1":
		for i := 0; i < total; i += 32 {
			out = append(out, 31, 1)
		}
	case "16+16":
		for i := 0; i < total; i += 16 {
			out = append(out, 16)
		}
	case "bytes":
		for i := 0; i < total; i++ {
			out = append(out, 1)
		}
	case "zero_reads":
		for i := 0; i < total; i += 8 {
			out = append(out, 0, 7, 0, 1)
		}
	default:
		for i := 0; i < total+8; i++ {
			out = append(out, 1+m.rng.Intn(40))
		}
	}
	return out
}

func (m *M) blockOf(class string) []byte {
	switch class {
	case "zero":
		return make([]byte, 32)
	case "n":
		return be32(bigN)
	case "one":
		return be32(one)
	case "n_minus_1":
		return be32(new(big.Int).Sub(bigN, one))
	case "n_plus_1":
		return be32(new(big.Int).Add(bigN, one))
	case "max":
		return be32(new(big.Int).Sub(bigR, one))
	case "two_n_wrap": // the largest values: 2^256 - 1 < 2n, so one subtraction always suffices
		return be32(new(big.Int).Sub(bigR, big.NewInt(int64(1+m.rng.Intn(3)))))
	case "top_limb_n": // equal to n in the upper half, random below
		b := be32(bigN)
		copy(b[16:], m.randBytes(16))
		return b
	case "stored_limb_struct": // a block whose STORED (Montgomery) form has structured / related limbs
		return be32(mulmod(new(big.Int).Mod(m.limbStruct(), bigN), rInvN, bigN))
	case "limbwise_n":
		return be32(m.limbwiseNeighbour(bigN))
	default:
		return m.randBytes(32)
	}
}

// genC18: streams of blocks (0 and n force a retry), every chunking, the source failing at chosen positions.
func genC18(m *M, budget int) {
	for m.events < budget {
		m.reset()
		for i := 0; i < 10; i++ {
			m.putScalar(0, m.anyScalarClass()) // prior receiver value (must survive a panic)
			var data []byte
			nRetry := []int{0, 0, 0, 1, 1, 2, 3, 4, 5, 8, 12}[m.rng.Intn(11)] // long runs of degenerate blocks too
			for j := 0; j < nRetry; j++ {
				bc := []string{"zero", "n"}[m.rng.Intn(2)]
				m.class("block:" + bc + "(retry)")
				data = append(data, m.blockOf(bc)...)
			}
			bc := blockClasses[m.rng.Intn(len(blockClasses))]
			cc := chunkClasses[m.rng.Intn(len(chunkClasses))]
			m.class("block:" + bc)
			m.class("chunk:" + cc)
			data = append(data, m.blockOf(bc)...)
			switch m.rng.Intn(5) {
			case 0: // the source fails at a chosen position (possibly mid-block, possibly at 0)
				data = data[:m.rng.Intn(len(data))]
				m.class("fault:truncated")
			case 1: // fails exactly at a block boundary
				data = data[:32*m.rng.Intn(len(data)/32+1)]
				m.class("fault:at_block_boundary")
			default:
				data = append(data, m.randBytes(m.rng.Intn(40))...) // more entropy than needed is available
				m.class("fault:none")
			}
			m.SRandom(0, data, m.chunksOf(cc, len(data)))
			m.SIsZero(0)
		}
	}
}

// ---------------------------------------------------------------- C08 / C09 inputs

var msgLens = []int{-1, 0, 1, 3, 55, 56, 63, 64, 65, 119, 120, 128, 200, 512}
var dstLens = []int{1, 2, 15, 16, 17, 31, 32, 49, 64, 100, 254, 255, 256, 257, 300, 1000}

func (m *M) msgOf(l int) []byte {
	if l < 0 {
		return nil
	}
	return m.randBytes(l)
}

func (m *M) dstOf(l int) []byte {
	if m.rng.Intn(3) == 0 { // printable, like real tags
		b := make([]byte, l)
		for i := range b {
			b[i] = byte('A' + m.rng.Intn(26))
		}
		return b
	}
	return m.randBytes(l)
}

// DST lengths at and beyond the 16-bit boundary (lengths are written as 1- and 2-byte integers in expand_message)
var giantDstLens = []int{65535, 65536, 65536 + 49, 65536 + 255, 65536 + 256, 131072}

// giantDue: one call with such a tag per shard at the quick tier (its SHA-256 is ~1000 blocks in TLC), a few at thorough.
func (m *M) giantDue() bool {
	if m.giants >= m.giantMax {
		return false
	}
	m.giants++
	return true
}

// sizeBoundaryPair: (message length, DST length) for which one of the strings expand_message_xmd hashes -- b_0's
// 64 + len(msg) + 3 + len(DST) + 1 bytes, b_i's 32 + 1 + len(DST) + 1 bytes -- or msg || DST itself has a size of
// 2^k - 1, 2^k or 2^k + 1 (fixed-size scratch buffers end there).  Walks through all of them over the histories.
func (m *M) sizeBoundaryPair() (int, int, string) {
	m.sizeIdx++
	i := m.sizeIdx
	delta := i%3 - 1
	dls := []int{16, 49, 1, 255, 100}
	switch (i / 3) % 3 {
	case 0: // b_0
		T := []int{128, 256, 512, 1024, 2048}[(i/9)%5]
		dl := dls[(i/45)%len(dls)]
		if ml := T + delta - 68 - dl; ml >= 0 {
			return ml, dl, "b0_at_power_of_two"
		}
		return T + delta - 68 - 16, 16, "b0_at_power_of_two"
	case 1: // b_i
		T := []int{64, 128, 256}[(i/9)%3]
		return []int{0, 3, 200}[(i/27)%3], T + delta - 34, "bi_at_power_of_two"
	default: // msg || DST
		T := []int{64, 128, 256, 512, 1024}[(i/9)%5]
		dl := dls[(i/45)%len(dls)]
		if ml := T + delta - dl; ml >= 0 {
			return ml, dl, "msg+dst_at_power_of_two"
		}
		return T + delta - 16, 16, "msg+dst_at_power_of_two"
	}
}

// reusedBuffers: the caller keeps ONE message buffer and ONE DST buffer across several calls and edits them in
// place between the calls (a counter in the tag, a new message read into the same buffer): each call must
// depend on the bytes the slices hold at the time of THAT call, whatever an earlier call saw behind the same pointers.
func (m *M) reusedBuffers(call func(msg, dst []byte)) {
	dl := []int{16, 49, 255, 256, 257, 300, 300}[m.rng.Intn(7)]
	ml := []int{0, 1, 32, 64, 100}[m.rng.Intn(5)]
	dstBuf := append(make([]byte, 0, dl+8), m.dstOf(dl)...)
	msgBuf := append(make([]byte, 0, ml+8), m.randBytes(ml)...)
	m.class("layout:buffers_reused_dst" + itoa(dl))
	for k := 0; k < 3; k++ {
		call(msgBuf, dstBuf)
		switch m.rng.Intn(4) {
		case 0, 1: // edit the tag in place
			dstBuf[m.rng.Intn(len(dstBuf))] ^= byte(1 + m.rng.Intn(255))
		case 2: // edit the message in place
			if len(msgBuf) > 0 {
				msgBuf[m.rng.Intn(len(msgBuf))] ^= byte(1 + m.rng.Intn(255))
			} else {
				dstBuf[0]++
			}
		default: // both, then back to an EARLIER content in the last round
			dstBuf[len(dstBuf)-1]++
			if len(msgBuf) > 0 {
				msgBuf[0]++
			}
		}
	}
	call(msgBuf, dstBuf)
}

func genC08(m *M, budget int) {
	i := 0
	for m.events < budget {
		m.reset()
		for j := 0; j < 6; j++ {
			ml := msgLens[i%len(msgLens)]
			dl := dstLens[(i/2)%len(dstLens)]
			if i%3 == 2 {
				ml = msgLens[m.rng.Intn(len(msgLens))]
				dl = dstLens[m.rng.Intn(len(dstLens))]
			}
			i++
			msg, dst := m.msgOf(ml), m.dstOf(dl)
			m.class("msglen:" + itoa(ml))
			m.class("dstlen:" + itoa(dl))
			switch i % 4 {
			case 1: // both are windows of one received record; the message's spare capacity overlaps the DST
				if msg != nil {
					if m.rng.Intn(2) == 0 {
						msg, dst = record(msg, dst)
					} else {
						msg, dst = recordDstFirst(msg, dst)
					}
					m.class("layout:one_record")
				}
			case 2: // spare capacity behind both
				if msg != nil {
					msg = append(make([]byte, 0, len(msg)+40), msg...)
				}
				dst = append(make([]byte, 0, len(dst)+40), dst...)
				m.class("layout:spare_capacity")
			}
			if m.rng.Intn(2) == 0 {
				m.EHashToGroup(m.rng.Intn(2), msg, dst)
				if m.rng.Intn(4) == 0 { // deterministic: same inputs again, into another variable
					m.EHashToGroup(2, msg, dst)
					m.EEqual(2, 0)
				}
			} else {
				m.EEncodeToGroup(m.rng.Intn(2), msg, dst)
			}
		}
		for j := 0; j < 9; j++ { // the hashed strings exactly at, one below and one above a power-of-two size
			ml, dl, what := m.sizeBoundaryPair()
			m.class("preimage:" + what)
			if m.rng.Intn(2) == 0 {
				m.EHashToGroup(m.rng.Intn(2), m.msgOf(ml), m.dstOf(dl))
			} else {
				m.EEncodeToGroup(m.rng.Intn(2), m.msgOf(ml), m.dstOf(dl))
			}
		}
		m.reusedBuffers(func(msg, dst []byte) {
			if m.rng.Intn(2) == 0 {
				m.EHashToGroup(m.rng.Intn(2), msg, dst)
			} else {
				m.EEncodeToGroup(m.rng.Intn(2), msg, dst)
			}
		})
		if m.giantDue() {
			dst := m.dstOf(giantDstLens[m.rng.Intn(len(giantDstLens))])
			m.class("dstlen:>=65535")
			m.EEncodeToGroup(0, m.msgOf(3), dst)
		}
		m.Ciphersuite()
		// an empty / nil DST panics and produces nothing
		if m.rng.Intn(2) == 0 {
			m.EHashToGroup(0, m.msgOf(5), nil)
			m.EEncodeToGroup(1, m.msgOf(5), []byte{})
		}
	}
}

func genC09(m *M, budget int) {
	i := 0
	for m.events < budget {
		m.reset()
		for j := 0; j < 10; j++ {
			ml := msgLens[i%len(msgLens)]
			dl := dstLens[(i/3)%len(dstLens)]
			if i%3 == 2 {
				ml = msgLens[m.rng.Intn(len(msgLens))]
				dl = dstLens[m.rng.Intn(len(dstLens))]
			}
			i++
			m.class("msglen:" + itoa(ml))
			m.class("dstlen:" + itoa(dl))
			msg, dst := m.msgOf(ml), m.dstOf(dl)
			if i%3 == 1 && msg != nil {
				if m.rng.Intn(2) == 0 {
					msg, dst = record(msg, dst)
				} else {
					msg, dst = recordDstFirst(msg, dst)
				}
				m.class("layout:one_record")
			}
			m.SHashToScalar(m.rng.Intn(2), msg, dst)
		}
		for j := 0; j < 6; j++ {
			ml, dl, what := m.sizeBoundaryPair()
			m.class("preimage:" + what)
			m.SHashToScalar(m.rng.Intn(2), m.msgOf(ml), m.dstOf(dl))
		}
		m.reusedBuffers(func(msg, dst []byte) { m.SHashToScalar(m.rng.Intn(2), msg, dst) })
		if m.giantDue() {
			dst := m.dstOf(giantDstLens[m.rng.Intn(len(giantDstLens))])
			m.class("dstlen:>=65535")
			m.SHashToScalar(0, m.msgOf(3), dst)
		}
		if m.rng.Intn(2) == 0 {
			m.SHashToScalar(0, m.msgOf(3), nil)
			m.SHashToScalar(1, nil, []byte{})
		}
	}
}

func itoa(i int) string {
	if i < 0 {
		return "nil"
	}
	return big.NewInt(int64(i)).String()
}
