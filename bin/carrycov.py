#!/opt/veriftools/pyvenv/bin/python3
"""carrycov: inputs that drive every carry / borrow / overflow site of the word-level code both ways.

  carrycov.py gen  <repo> <out.json> [--budget SECONDS] [--z3-timeout S] [--workers N] [--seed N]

harness/extract reads the straight-line word-level functions of internal/field and internal/scalar from the
CURRENT tree as DAGs of 64-bit operations.  For every add-with-carry, sub-with-borrow, plain + / - between
non-constants and every scalar argument of an inlined helper, this tool looks for inputs (valid for the
function: below the modulus where the callers guarantee that) with

   carry-out 1 | carry-in 1 and carry-out 1 | carry-in 1 and the carry-out caused by it alone (a + b = 2^64 - 1:
   the ripple) | carry-in 1, carry-out 0 | carry-in 0, carry-out 1         (and the same for borrows)
   a + b wraps | a - b wraps | argument = 0 | argument != 0

first by running random and structured inputs through the DAG, then, for what is left, with z3 on the DAG.
The result is a list of INPUTS.  Nothing here judges the code: the harness feeds the inputs to the public API and
the recorded calls are validated against the TLA+ specification like every other trace.  A target that z3 cannot
reach in its time limit is simply not in the list (infeasible targets -- a final carry that the modulus rules
out -- look the same); the counts are reported so that the evidence says what was and was not reached.
"""
import json, os, random, subprocess, sys, time, multiprocessing as mp

P = 2**256 - 2**32 - 977
N = 0xFFFFFFFFFFFFFFFFFFFFFFFFFFFFFFFEBAAEDCE6AF48A03BBFD25E8CD0364141
MOD = {"field": P, "scalar": N}
M64 = 2**64 - 1
ATTEMPT_TIMEOUT = float(os.environ.get("CARRYCOV_ATTEMPT_TIMEOUT", "20"))
MAX_ATTEMPTS = int(os.environ.get("CARRYCOV_MAX_ATTEMPTS", "10"))
MULOP = {"zero": 0, "one": 1, "top_bit_only": 1 << 63, "all_ones": M64}
UNCONSTRAINED = {"Reduce", "Selectznz", "CMove", "cmovznzU64"}
GOENV = dict(os.environ, GOFLAGS="-mod=mod", GOPROXY="off", GOSUMDB="off", GOTOOLCHAIN="local")
HERE = os.path.dirname(os.path.abspath(__file__))


def extract(repo):
    r = subprocess.run(["go", "run", os.path.join(HERE, "..", "harness", "extract", "main.go"), repo],
                       capture_output=True, text=True, env=GOENV, cwd="/")
    if r.returncode != 0:
        raise RuntimeError("extract failed: " + r.stderr[-2000:])
    return json.loads(r.stdout)


# ------------------------------------------------------------------ concrete evaluation

def mask(w):
    return (1 << w) - 1


def ceval(prog, inputs):
    """inputs: {name: int | [ints]} -> list of node values (tuples for add64/sub64/mul64)."""
    vals = [None] * len(prog["nodes"])
    for i, n in enumerate(prog["nodes"]):
        op, a, w = n["op"], n.get("a", []), n["w"]
        if op == "const":
            vals[i] = int(n["v"])
        elif op == "input":
            v = inputs.get(n["v"], 0)   # a pure out-parameter's old contents are never read
            vals[i] = v[n.get("i", 0)] if isinstance(v, list) else v
        elif op == "add64":
            s = vals[a[0]] + vals[a[1]] + vals[a[2]]   # Go's bits.Add64: carry must be 0 or 1, else unspecified -> we take the sum
            vals[i] = (s & M64, (s >> 64) & 1)
        elif op == "sub64":
            s = vals[a[0]] - vals[a[1]] - vals[a[2]]
            vals[i] = (s & M64, 1 if s < 0 else 0)
        elif op == "mul64":
            p = vals[a[0]] * vals[a[1]]
            vals[i] = (p >> 64, p & M64)
        elif op == "proj":
            vals[i] = vals[a[0]][n.get("i", 0)]
        elif op == "plus":
            vals[i] = (vals[a[0]] + vals[a[1]]) & mask(w)
        elif op == "minus":
            vals[i] = (vals[a[0]] - vals[a[1]]) & mask(w)
        elif op == "times":
            vals[i] = (vals[a[0]] * vals[a[1]]) & mask(w)
        elif op == "and":
            vals[i] = vals[a[0]] & vals[a[1]]
        elif op == "or":
            vals[i] = vals[a[0]] | vals[a[1]]
        elif op == "xor":
            vals[i] = vals[a[0]] ^ vals[a[1]]
        elif op == "andnot":
            vals[i] = vals[a[0]] & ~vals[a[1]] & mask(w)
        elif op == "shl":
            vals[i] = (vals[a[0]] << vals[a[1]]) & mask(w) if vals[a[1]] < w else 0
        elif op == "shr":
            vals[i] = vals[a[0]] >> vals[a[1]] if vals[a[1]] < w else 0
        elif op == "not":
            vals[i] = ~vals[a[0]] & mask(w)
        elif op == "neg":
            vals[i] = (-vals[a[0]]) & mask(w)
        elif op == "trunc":
            vals[i] = vals[a[0]] & mask(w)
        elif op == "zext":
            vals[i] = vals[a[0]]
        else:
            raise RuntimeError("op " + op)
    return vals


def site_ids(prog):
    """stable names of the sites: position#ordinal-on-that-line-among-sites-of-that-kind"""
    cnt, ids = {}, []
    for s in prog.get("sites") or []:
        k = (s["pos"], s["kind"])
        cnt[k] = cnt.get(k, 0) + 1
        ids.append("%s#%d" % (s["pos"], cnt[k]))
    return ids


def tid(prog, t):
    return "%s:%s:%s" % (prog["_ids"][t[0]], t[1], t[2])


def targets(prog):
    """[(site index, kind, name)]"""
    prog["_ids"] = site_ids(prog)
    out = []
    for si, s in enumerate(prog.get("sites") or []):
        k = s["kind"]
        if k in ("add64", "sub64"):
            cin_const = prog["nodes"][s["a"][2]]["op"] == "const"
            names = ["out1"] if cin_const else ["out1", "in1_out1", "ripple", "in1_out0", "in0_out1", "in1_a_ones", "in1_b_ones"]
            out += [(si, k, nm) for nm in names]
        elif k in ("plus", "minus"):
            out.append((si, k, "wraps"))
        elif k == "callarg":
            out += [(si, k, "zero"), (si, k, "nonzero")]
        elif k == "mulop":
            out += [(si, k, nm) for nm in ("zero", "one", "top_bit_only", "all_ones")]
    return out


def holds(prog, vals, t):
    si, k, nm = t
    s = prog["sites"][si]
    if k in ("add64", "sub64"):
        a, b, c = (vals[x] for x in s["a"])
        cout = vals[s["r"][1]]
        if nm == "out1":
            return cout == 1
        if nm == "in1_out1":
            return c == 1 and cout == 1
        if nm == "in1_out0":
            return c == 1 and cout == 0
        if nm == "in0_out1":
            return c == 0 and cout == 1
        if nm == "ripple":
            return c == 1 and ((a + b == M64) if k == "add64" else (a == b))
        if nm == "in1_a_ones":
            return c == 1 and a == (M64 if k == "add64" else 0)
        if nm == "in1_b_ones":
            return c == 1 and b == M64
    if k == "plus":
        w = prog["nodes"][s["r"][0]]["w"]
        return vals[s["a"][0]] + vals[s["a"][1]] > mask(w)
    if k == "minus":
        return vals[s["a"][0]] < vals[s["a"][1]]
    if k == "callarg":
        return (vals[s["a"][0]] == 0) == (nm == "zero")
    if k == "mulop":
        return vals[s["a"][0]] == MULOP[nm]
    return False


def limbs(v, n=4):
    return [(v >> (64 * i)) & M64 for i in range(n)]


def rand_value(rng, mod, free):
    top = 2**256 if free else mod
    c = rng.randrange(12)
    if c == 0:
        return rng.choice([0, 1, 2, top - 1, top - 2, mod - 1, (mod - 1) // 2, (mod + 1) // 2]) % top
    if c == 1:   # structured limbs
        pats = [0, 1, M64, 1 << 63, M64 - 1, 0xffffffff, 0xffffffff00000000]
        v = sum(rng.choice(pats) << (64 * i) for i in range(4))
        return v % top
    if c == 2:   # near the modulus limb-wise
        ml = limbs(mod)
        v = sum(((ml[i] + rng.choice([-1, 0, 0, 1])) & M64) << (64 * i) for i in range(4))
        return v % top
    if c == 3:   # Montgomery form of something small / structured
        return (rng.randrange(1 << 16) * pow(2, 256, mod)) % mod
    if c == 4:
        return (rng.randrange(1 << 16) * pow(2, -256, mod)) % mod
    return rng.randrange(top)


def apply_pins(prog, inp):
    for (name, idx), v in (prog.get("pinned") or {}).items():
        if isinstance(inp.get(name), list):
            inp[name][idx] = v
        else:
            inp[name] = v
    return inp


def rand_inputs(prog, rng):
    return apply_pins(prog, _rand_inputs(prog, rng))


def _rand_inputs(prog, rng):
    mod = MOD[prog["pkg"]]
    free = prog["func"] in UNCONSTRAINED
    out = {}
    for inp in prog["inputs"]:
        if inp["len"] == 4 and inp["w"] == 64:
            out[inp["name"]] = limbs(rand_value(rng, mod, free))
        elif inp["len"] == 0:
            out[inp["name"]] = rng.choice([0, 1, 1, rng.randrange(1 << inp["w"])]) if inp["w"] == 64 else rng.randrange(1 << inp["w"])
        else:
            out[inp["name"]] = [rng.randrange(1 << inp["w"]) for _ in range(inp["len"])]
    return out


# ------------------------------------------------------------------ z3

def _cone(prog, t):
    s = prog["sites"][t[0]]
    need, st = set(), list(s["a"] + (s.get("r") or []))
    while st:
        x = st.pop()
        if x in need:
            continue
        need.add(x)
        st.extend(prog["nodes"][x].get("a", []))
    return need


def _z3_attempt(prog, t, need, fixed, timeout):
    """One query.  fixed: {(input name, index): int} -- inputs held at concrete values (the rest are unknowns)."""
    import z3
    si, k, nm = t
    s = prog["sites"][si]
    zv, ins = {}, {}

    def inp(name, idx, w):
        key = (name, idx)
        if key not in ins:
            ins[key] = z3.BitVecVal(fixed[key], w) if key in fixed else z3.BitVec("%s_%d" % key, w)
        return ins[key]
    for i, n in enumerate(prog["nodes"]):
        if i not in need:
            continue
        op, a, w = n["op"], n.get("a", []), n["w"]
        if op == "const":
            zv[i] = z3.BitVecVal(int(n["v"]), w if w else 64)
        elif op == "input":
            zv[i] = inp(n["v"], n.get("i", 0), w)
        elif op == "add64":
            sm = z3.ZeroExt(2, zv[a[0]]) + z3.ZeroExt(2, zv[a[1]]) + z3.ZeroExt(2, zv[a[2]])
            zv[i] = (z3.Extract(63, 0, sm), z3.ZeroExt(63, z3.Extract(64, 64, sm)))
        elif op == "sub64":
            sm = z3.ZeroExt(2, zv[a[0]]) - z3.ZeroExt(2, zv[a[1]]) - z3.ZeroExt(2, zv[a[2]])
            zv[i] = (z3.Extract(63, 0, sm), z3.ZeroExt(63, z3.Extract(65, 65, sm)))
        elif op == "mul64":
            p = z3.ZeroExt(64, zv[a[0]]) * z3.ZeroExt(64, zv[a[1]])
            zv[i] = (z3.Extract(127, 64, p), z3.Extract(63, 0, p))
        elif op == "proj":
            zv[i] = zv[a[0]][n.get("i", 0)]
        elif op == "plus":
            zv[i] = zv[a[0]] + zv[a[1]]
        elif op == "minus":
            zv[i] = zv[a[0]] - zv[a[1]]
        elif op == "times":
            zv[i] = zv[a[0]] * zv[a[1]]
        elif op == "and":
            zv[i] = zv[a[0]] & zv[a[1]]
        elif op == "or":
            zv[i] = zv[a[0]] | zv[a[1]]
        elif op == "xor":
            zv[i] = zv[a[0]] ^ zv[a[1]]
        elif op == "andnot":
            zv[i] = zv[a[0]] & ~zv[a[1]]
        elif op == "shl":
            zv[i] = zv[a[0]] << (zv[a[1]] if zv[a[1]].size() == w else z3.Extract(w - 1, 0, zv[a[1]]))
        elif op == "shr":
            zv[i] = z3.LShR(zv[a[0]], zv[a[1]] if zv[a[1]].size() == w else z3.Extract(w - 1, 0, zv[a[1]]))
        elif op == "not":
            zv[i] = ~zv[a[0]]
        elif op == "neg":
            zv[i] = -zv[a[0]]
        elif op == "trunc":
            zv[i] = z3.Extract(w - 1, 0, zv[a[0]])
        elif op == "zext":
            zv[i] = z3.ZeroExt(w - zv[a[0]].size(), zv[a[0]])
    sol = z3.Solver()
    sol.set("timeout", int(timeout * 1000))
    mod = MOD[prog["pkg"]]
    free = prog["func"] in UNCONSTRAINED
    for d in prog["inputs"]:
        if d["len"] == 4 and d["w"] == 64 and not free:
            ls = [inp(d["name"], i, 64) for i in range(4)]
            sol.add(z3.ULT(z3.Concat(ls[3], ls[2], ls[1], ls[0]), z3.BitVecVal(mod, 256)))
    if k in ("add64", "sub64"):
        a, b, c = (zv[x] for x in s["a"])
        cout = zv[s["r"][1]]
        one, zero = z3.BitVecVal(1, 64), z3.BitVecVal(0, 64)
        cond = {"out1": [cout == one], "in1_out1": [c == one, cout == one], "in1_out0": [c == one, cout == zero],
                "in0_out1": [c == zero, cout == one],
                "ripple": [c == one, (a + b == z3.BitVecVal(M64, 64)) if k == "add64" else (a == b)],
                "in1_a_ones": [c == one, a == z3.BitVecVal(M64 if k == "add64" else 0, 64)],
                "in1_b_ones": [c == one, b == z3.BitVecVal(M64, 64)]}[nm]
        if k == "add64" and nm == "ripple":
            cond.append(z3.UGE(a + b, a))   # no wrap in a + b itself
        sol.add(*cond)
    elif k == "plus":
        a, b = zv[s["a"][0]], zv[s["a"][1]]
        sol.add(z3.ULT(a + b, a))
    elif k == "minus":
        sol.add(z3.ULT(zv[s["a"][0]], zv[s["a"][1]]))
    elif k == "callarg":
        a = zv[s["a"][0]]
        sol.add(a == 0 if nm == "zero" else a != 0)
    elif k == "mulop":
        sol.add(zv[s["a"][0]] == z3.BitVecVal(MULOP[nm], 64))
    r = sol.check()
    if r != z3.sat:
        return str(r), None
    m = sol.model()
    out = {}
    for d in prog["inputs"]:
        def val(idx):
            key = (d["name"], idx)
            if key in fixed:
                return fixed[key]
            if key in ins:
                return m.eval(ins[key], model_completion=True).as_long()
            return 0
        out[d["name"]] = val(0) if d["len"] == 0 else [val(i) for i in range(d["len"])]
    return "sat", out


def z3_solve(args):
    """Full symbolic query when the cone is shallow; otherwise (and after an 'unknown') CONCOLIC queries: all input
    limbs but one or two held at random concrete values, so that the products become products by constants."""
    prog, t, timeout = args
    need = _cone(prog, t)
    muls = sum(1 for x in need if prog["nodes"][x]["op"] == "mul64")
    t0 = time.time()
    res = "unknown"
    pinned = dict(prog.get("pinned") or {})
    if muls <= 6:
        res, inp = _z3_attempt(prog, t, need, pinned, timeout)
        if res in ("sat", "unsat"):
            return (prog["pkg"], prog["func"], t, res, time.time() - t0, inp)
    rng = random.Random(hash((prog["pkg"], prog["func"]) + tuple(t)) & 0xffffffff)
    keys = sorted({(prog["nodes"][x]["v"], prog["nodes"][x].get("i", 0)) for x in need if prog["nodes"][x]["op"] == "input"} - set(pinned))
    arrs = {d["name"]: d for d in prog["inputs"]}
    if not keys:
        return (prog["pkg"], prog["func"], t, res, time.time() - t0, None)
    choices = [[k] for k in keys] + [[keys[i], keys[j]] for i in range(len(keys)) for j in range(i + 1, len(keys)) if keys[i][0] != keys[j][0]]
    # later limbs first: they enter the computation last, so the target depends on them most directly
    choices.sort(key=lambda c: (len(c), -max(k[1] for k in c)))
    attempts = 0
    for freeset in choices:
        for rep in range(2):
            if attempts >= MAX_ATTEMPTS or time.time() - t0 > 6 * timeout:
                return (prog["pkg"], prog["func"], t, "unknown", time.time() - t0, None)
            attempts += 1
            base = rand_inputs(prog, rng)
            fixed = {}
            for name, v in base.items():
                if isinstance(v, list):
                    for i, x in enumerate(v):
                        fixed[(name, i)] = x
                else:
                    fixed[(name, 0)] = v
            for d in prog["inputs"]:          # keep the fixed part below the modulus whatever the free limbs become
                if d["len"] == 4 and d["w"] == 64 and prog["func"] not in UNCONSTRAINED and (d["name"], 3) not in freeset:
                    if any(k[0] == d["name"] for k in freeset):
                        fixed[(d["name"], 3)] = rng.randrange(0, M64 - 1)
            for k in freeset:
                fixed.pop(k, None)
            fixed.update(pinned)
            r, inp = _z3_attempt(prog, t, need, fixed, min(timeout, ATTEMPT_TIMEOUT))
            if r == "sat":
                return (prog["pkg"], prog["func"], t, "sat", time.time() - t0, inp)
    return (prog["pkg"], prog["func"], t, "unknown", time.time() - t0, None)


def valid(prog, inp):
    if prog["func"] in UNCONSTRAINED:
        return True
    mod = MOD[prog["pkg"]]
    for d in prog["inputs"]:
        if d["len"] == 4 and d["w"] == 64:
            if sum(x << (64 * i) for i, x in enumerate(inp[d["name"]])) >= mod:
                return False
    return True


def specialise(progs):
    """The word-level functions as the 48-byte wide reduction uses them (v = a + b * 2^192, a, b < 2^192):
    ToMontgomery of a value below 2^192, and Mul by the CONSTANT 2^192 (in stored form).  Inputs found for these are
    turned into 48-byte strings by wide_entries()."""
    import copy
    out = []
    for p in progs:
        if p["func"] == "Mul" and len(p["inputs"]) == 2:
            q = copy.deepcopy(p)
            q["func"] = "Mul@two192"
            c = limbs((pow(2, 192, MOD[p["pkg"]]) << 256) % MOD[p["pkg"]])
            q["pinned"] = {(p["inputs"][1]["name"], i): c[i] for i in range(4)}
            out.append(q)
        if p["func"] == "ToMontgomery" and len(p["inputs"]) == 1:
            q = copy.deepcopy(p)
            q["func"] = "ToMontgomery@below2^192"
            q["pinned"] = {(p["inputs"][0]["name"], 3): 0}
            out.append(q)
    return out


def lift_below(low, bits, mod, bound_bits=192):
    """u with B = low + 2^bits * u < mod and B * 2^-256 mod `mod` < 2^bound_bits, or None.
    (c + u K) mod m < 2^bound with u < U: a closest-vector problem in the lattice {(u, uK - jm)}, dimension 2:
    Lagrange reduction and Babai rounding on exact integers / fractions."""
    from fractions import Fraction
    rinv = pow(2, -256, mod)
    c = low * rinv % mod
    K = (1 << bits) * rinv % mod
    U = (mod - low) >> bits
    if U <= 0:
        return None
    ubits = U.bit_length()
    s1 = 1 << max(0, bound_bits - ubits)     # scale the first coordinate so that the box is about square
    s2 = 1 << max(0, ubits - bound_bits)
    v1, v2 = (s1, K * s2), (0, mod * s2)
    def n2(v): return v[0] * v[0] + v[1] * v[1]
    while True:                                # Lagrange / Gauss reduction
        if n2(v1) > n2(v2):
            v1, v2 = v2, v1
        mu = Fraction(v1[0] * v2[0] + v1[1] * v2[1], n2(v1))
        k = round(mu)
        if k == 0:
            break
        v2 = (v2[0] - k * v1[0], v2[1] - k * v1[1])
    tx, ty = (U // 2) * s1, ((1 << (bound_bits - 1)) - c) * s2
    det = v1[0] * v2[1] - v1[1] * v2[0]
    if det == 0:
        return None
    al = Fraction(tx * v2[1] - ty * v2[0], det)
    be = Fraction(v1[0] * ty - v1[1] * tx, det)
    for da in (0, -1, 1, -2, 2):
        for db in (0, -1, 1, -2, 2):
            a, b = round(al) + da, round(be) + db
            u = (a * v1[0] + b * v2[0]) // s1
            if 0 <= u < U:
                B = low + (u << bits)
                if B < mod and B * rinv % mod < (1 << bound_bits):
                    return B
    return None


def wide_entries(progs, corpus, rng):
    """48-byte strings  b || a  (v = b * 2^192 + a) built from the inputs found for the specialised programs."""
    out = []
    byname = {(p["pkg"], p["func"]): p for p in progs}
    for e in corpus:
        prog = byname.get((e["pkg"], e["func"]))
        if prog is None or "@" not in e["func"]:
            continue
        mod = MOD[e["pkg"]]
        name = prog["inputs"][0]["name"]
        ls = e["inputs"][name]
        ls = [int(x, 16) if isinstance(x, str) else x for x in ls]
        if e["func"].startswith("ToMontgomery@"):
            v = sum(x << (64 * i) for i, x in enumerate(ls[:3]))
            other = rng.randrange(1 << 192)
            for b, a in ((v, other), (other, v)):
                out.append({"pkg": e["pkg"], "func": "Wide48", "how": e["how"] + " via " + e["func"], "targets": e["targets"],
                            "inputs": {"data": (b.to_bytes(24, "big") + a.to_bytes(24, "big")).hex()}})
        else:
            # which limbs of the stored operand does the target depend on?  keep those, lift the rest
            top = 0
            for t in e["targets"][:1]:
                pass
            need_top = e.get("top_limb", 3)
            low_bits = 64 * (need_top + 1)
            low = sum(x << (64 * i) for i, x in enumerate(ls)) & ((1 << low_bits) - 1)
            B = lift_below(low, low_bits, mod) if low_bits < 256 else None
            if B is None:
                continue
            b = B * pow(2, -256, mod) % mod
            a = rng.randrange(1 << 192)
            out.append({"pkg": e["pkg"], "func": "Wide48", "how": e["how"] + " via " + e["func"] + ", lifted", "targets": e["targets"],
                        "inputs": {"data": (b.to_bytes(24, "big") + a.to_bytes(24, "big")).hex()}})
    return out


def generate(repo, budget, z3_timeout, workers, seed, log=lambda *a: None, prev=None, max_muls=10**9, kinds=None, only=None):
    ex = extract(repo)
    settled = set()   # (pkg.func, "site:kind:name") already sat / unsat in an earlier run on the SAME programs
    prev_corpus = []
    if prev:
        pd = json.load(open(prev))
        byname = {p["pkg"] + "." + p["func"]: p for p in ex["programs"]}
        for k, v in pd.get("z3", {}).items():
            for t, r, d in v:
                if r in ("sat", "unsat"):
                    head = t.split(":")[0]
                    if head.isdigit() and k in byname:   # first-generation files numbered the sites (there were no mulop sites then)
                        pr = byname[k]
                        pr["_ids"] = site_ids(pr)
                        old = [i for i, s_ in enumerate(pr["sites"]) if s_["kind"] != "mulop"]
                        if int(head) < len(old):
                            t = pr["_ids"][old[int(head)]] + ":" + ":".join(t.split(":")[1:])
                    settled.add((k, t))
        prev_corpus = [e for e in pd["corpus"] if e["how"].startswith("z3")]
    progs = [p for p in ex["programs"] if p.get("sites")]
    progs += specialise(progs)
    rng = random.Random(seed)
    corpus, stats, jobs = [], {}, []
    for prog in progs:
        ts = targets(prog)
        open_t = set(range(len(ts)))
        kept = []
        for trial in range(1500):
            inp = rand_inputs(prog, rng)
            vals = ceval(prog, inp)
            hit = [i for i in open_t if holds(prog, vals, ts[i])]
            if hit:
                open_t -= set(hit)
                kept.append((inp, [ts[i] for i in hit], "random"))
            if not open_t:
                break
        key = prog["pkg"] + "." + prog["func"]
        stats[key] = {"targets": len(ts), "by_random": len(ts) - len(open_t), "by_z3": 0, "unreached": 0, "sites": len(prog["sites"])}
        for inp, hit, how in kept:
            corpus.append({"pkg": prog["pkg"], "func": prog["func"], "inputs": inp, "how": how,
                           "targets": [tid(prog, t) for t in hit]})
        # cheapest first: targets whose cone is small
        for i in sorted(open_t):
            if (key, tid(prog, ts[i])) not in settled:
                jobs.append((prog, ts[i]))
    log("carrycov: %d programs, %d targets open after random search" % (len(progs), len(jobs)))

    def cone(job):
        prog, t = job
        seen, st = set(), list(prog["sites"][t[0]]["a"])
        muls = 0
        while st:
            x = st.pop()
            if x in seen:
                continue
            seen.add(x)
            if prog["nodes"][x]["op"] == "mul64":
                muls += 1
            st.extend(prog["nodes"][x].get("a", []))
        return muls
    jobs = [j for j in jobs if cone(j) <= max_muls and (not kinds or j[1][2] in kinds) and (not only or only in j[0]["func"])]
    pos = [x for x in os.environ.get("CARRYCOV_POS", "").split(",") if x]
    if pos:   # only the sites at these source positions (":147#" ...)
        jobs = [j for j in jobs if any(x in tid(j[0], j[1]) for x in pos)]
    jobs.sort(key=cone)
    t_end = time.time() + budget
    solved_for = {}
    if jobs and budget > 0:
        with mp.Pool(workers) as pool:
            it = pool.imap_unordered(z3_solve, [(p, t, z3_timeout) for p, t in jobs])
            for _ in range(len(jobs)):
                try:
                    pkg, fn, t, res, dt, inp = it.next(timeout=max(1.0, t_end - time.time()))
                except mp.TimeoutError:
                    log("carrycov: budget used up")
                    pool.terminate()
                    break
                key = pkg + "." + fn
                prog = next(p for p in progs if p["pkg"] == pkg and p["func"] == fn)
                if res == "sat" and valid(prog, inp) and holds(prog, ceval(prog, inp), t):
                    stats[key]["by_z3"] += 1
                    ent = {"pkg": pkg, "func": fn, "inputs": inp, "how": "z3 %.1fs" % dt, "targets": [tid(prog, t)]}
                    if "@two192" in fn:   # the highest limb of the free operand that the target depends on
                        nm = prog["inputs"][0]["name"]
                        ent["top_limb"] = max([prog["nodes"][x].get("i", 0) for x in _cone(prog, t)
                                               if prog["nodes"][x]["op"] == "input" and prog["nodes"][x]["v"] == nm] or [3])
                    corpus.append(ent)
                solved_for.setdefault(key, []).append((tid(prog, t), res, round(dt, 1)))
    corpus += wide_entries(progs, corpus + prev_corpus, rng)
    for e in corpus:   # JSON: limbs as hex strings
        e["inputs"] = {k: ([hex(x) for x in v] if isinstance(v, list) else (v if isinstance(v, str) else hex(v))) for k, v in e["inputs"].items()}
    for e in prev_corpus:
        corpus.append(e)
        if e["pkg"] + "." + e["func"] in stats:
            stats[e["pkg"] + "." + e["func"]]["by_z3"] += 1
    if prev:
        for k, v in pd.get("z3", {}).items():
            solved_for.setdefault(k, [])
            solved_for[k] += [(t, r, d) for t, r, d in v if r in ("sat", "unsat")]
    for key, st in stats.items():
        st["unreached"] = st["targets"] - st["by_random"] - st["by_z3"]
    return {"corpus": corpus, "stats": stats, "skipped": ex["skipped"], "z3": {k: [[t, r, d] for t, r, d in v] for k, v in solved_for.items()}}


if __name__ == "__main__":
    import argparse
    ap = argparse.ArgumentParser()
    ap.add_argument("cmd")
    ap.add_argument("repo")
    ap.add_argument("out")
    ap.add_argument("--budget", type=float, default=600)
    ap.add_argument("--z3-timeout", type=float, default=60)
    ap.add_argument("--workers", type=int, default=16)
    ap.add_argument("--seed", type=int, default=1)
    ap.add_argument("--prev", default=None)
    ap.add_argument("--only", default="", help="only functions whose name contains this go to z3")
    ap.add_argument("--kinds", default="", help="only these target names (comma-separated) go to z3")
    ap.add_argument("--max-muls", type=int, default=10**9, help="only hand z3 targets whose cone has at most this many 64x64 multiplications")
    a = ap.parse_args()
    res = generate(a.repo, a.budget, a.z3_timeout, a.workers, a.seed, log=lambda *x: print(*x, file=sys.stderr, flush=True), prev=a.prev, max_muls=a.max_muls, kinds=set(a.kinds.split(',')) if a.kinds else None, only=a.only or None)
    json.dump(res, open(a.out, "w"), indent=0)
    tot = {"targets": 0, "by_random": 0, "by_z3": 0, "unreached": 0}
    for k, st in sorted(res["stats"].items()):
        print(k, st)
        for x in tot:
            tot[x] += st[x]
    print("TOTAL", tot, "corpus entries", len(res["corpus"]))
