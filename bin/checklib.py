"""Driver library behind /verif/bin/check (see its docstring and DESIGN.md section 3.4)."""
import argparse, concurrent.futures, glob, json, os, re, shutil, subprocess, sys, tempfile, time

VERIF = os.path.dirname(os.path.dirname(os.path.abspath(__file__)))
REPO = os.environ.get("VERIF_REPO", "/repo")
SPEC = os.path.join(VERIF, "spec")
TLC_CP = "/opt/veriftools/tla/tla2tools.jar:/opt/veriftools/tla/CommunityModules-deps.jar"
NCPU = max(1, min(16, os.cpu_count() or 1))

GOENV = dict(os.environ, GOFLAGS="-mod=mod", GOPROXY="off", GOSUMDB="off", GOTOOLCHAIN="local", CGO_ENABLED=os.environ.get("CGO_ENABLED", "1"))

# ------------------------------------------------------------------ which property owns which action
# A disagreement at an event is a violation of property X only if X owns the event's action
# (DESIGN 3.6); otherwise the check reports "inconclusive" and names the owner.
OWNERS = {}


def own(props, ops):
    for o in ops.split():
        OWNERS.setdefault(o, set()).update(props.split())


own("C02 C10", "EAdd ESub EDouble ENegate EAddNil ESubNil")
own("C01 C10", "EMul EMulNil")
own("C05 C10", "EEqual EIsIdentity")
own("C04 C10", "EEncode EEncodeUnc EXCoord EHex EMarshal ERescale ESetRaw")
own("C03 C04 C10", "EDecode EUnmarshal EDecodeComp EDecodeUnc EDecodeCoords EDecodeHex")
own("C10", "ENew EIdentity EBase ESet ECopy Reset Order Lengths")
own("C08 C10", "Ciphersuite")
own("C06 C10", "SNew SZero SOne SMinusOne SSetU64 SSet SSetNil SCopy SAdd SAddNil SSub SSubNil SMul SMulNil SSquare SInvert SPow SPowNil")
own("C13 C10", "SEqual SEqualNil SIsZero SIsOne SLessOrEqual SCSelect SCSelectNil")
own("C14", "SBits")
own("C07 C10", "SEncode SHex SMarshal SDecode SUnmarshal SDecodeHex SErrClasses SSetInt")
own("C08 C10", "EHashToGroup EEncodeToGroup")
own("C09 C10", "SHashToScalar")
own("C18", "SRandom")
own("C15", "MemCall MemProbe")
own("C16", "RaceReport Adopt")
own("C12", "FNew FOne FSet FAdd FSub FMul FSqr FNeg FInvert FSqrtRatio FCMove FFromBytes FWide FBytes FSgn0 FIsZero FEquals FSetInt FReset")
own("C11", "MSswu MIso")
own("C03 C11", "MPoly")
own("C09", "NWide")
own("C19", "Sched")
# in the concurrency check every disagreement is a call that did not return its sequential result
CONCURRENT_PROPS = {"C16"}

# trace-validated properties: harness generator name == property id
TRACE_PROPS = {"C19", "C01", "C02", "C03", "C04", "C05", "C06", "C07", "C08", "C09", "C10", "C11", "C12", "C13", "C14", "C15", "C16", "C18"}
# A check is a list of passes: (generator name, harness file groups, trace module, cfg, scale, optional?, only these reasons count)
SECP = ("TraceSecp.tla", "TraceSecp.cfg")
FIELD = ("TraceField.tla", "TraceField.cfg")
PASSES = {
    "C09": [("C09", ("main",), SECP, 1.0, False, None), ("C09w", ("main", "field"), FIELD, 1.0, True, None)],
    "C11": [("C11", ("main", "map"), FIELD, 1.0, False, None),
            # the field primitives the map is composed of, on boundary / structured operands: any disagreement counts
            # (optional: it needs the method names of internal/field; a renaming refactor only loses this pass)
            ("C11f", ("main", "field"), FIELD, 1.0, True, {"result", "frame", "noncanonical-stored-value", "noncanonical-bytes"})],
    "C12": [("C12", ("main", "field"), FIELD, 1.0, False, None)],
    "C19": [("C19", ("main", "sched"), ("TraceSched.tla", "TraceSched.cfg"), 1.0, False, None)],
    "C15": [("C15", ("main",), ("TraceMem.tla", "TraceMem.cfg"), 1.0, False, None),
            ("C10", ("main",), SECP, 0.15, False, {"frame", "invalid-frame"})],   # element / scalar arguments keep their value
}
# Sequential properties additionally get a short concurrent pass (the C16 generator in a -race binary): a call
# that returns a wrong value only while other goroutines are inside the library (package-level scratch, pooled
# buffers) still violates "Add yields P+Q", "Encode returns ...".  Only disagreements at actions the property owns
# count there; races and foreign disagreements are C16's business and are ignored in this pass.
CONC_LITE = {"C01", "C02", "C03", "C04", "C05", "C06", "C07", "C08", "C09", "C13", "C14"}
SETUP_OPS = {"Header", "Reset", "ESetRaw", "ERescale", "SSetInt", "Adopt", "FReset", "FSetInt", "MemReset", "RaceReport"}
# harness wrappers that stand for several actions
WRAPPER_OPS = {"EDecodeForm": {"EDecode", "EUnmarshal", "EDecodeComp", "EDecodeUnc", "EDecodeHex"},
               "SDecodeForm": {"SDecode", "SUnmarshal", "SDecodeHex"}}
# properties whose histories can be re-executed call by call from a replay file
SCENARIO_PROPS = TRACE_PROPS - {"C15", "C16", "C11", "C12", "C19"}

# toy-scale model-checking configurations per property: (module, cfg, tiers, extra args)
Q_, T_, QT = ("quick",), ("thorough",), ("quick", "thorough")
MC = {
    "C01": [("MC_Ladder.tla", "MC_Ladder.cfg", QT, ()), ("MC_Ladder.tla", "MC_Ladder_full.cfg", T_, ()), ("MC_Ladder.tla", "MC_Ladder_79.cfg", T_, ())],
    "C02": [("MC_GroupLaw.tla", "MC_GroupLaw.cfg", Q_, ()), ("MC_GroupLaw.tla", "MC_GroupLaw_full.cfg", T_, ()), ("MC_GroupLaw.tla", "MC_GroupLaw_67.cfg", T_, ())],
    "C03": [("MC_Decode.tla", "MC_Decode.cfg", Q_, ()), ("MC_Decode.tla", "MC_Decode_full.cfg", T_, ())],
    "C04": [("MC_GroupLaw.tla", "MC_GroupLaw.cfg", Q_, ()), ("MC_GroupLaw.tla", "MC_GroupLaw_full.cfg", T_, ()), ("MC_Decode.tla", "MC_Decode.cfg", QT, ())],
    "C05": [("MC_GroupLaw.tla", "MC_GroupLaw.cfg", Q_, ()), ("MC_GroupLaw.tla", "MC_GroupLaw_full.cfg", T_, ()), ("MC_GroupLaw.tla", "MC_GroupLaw_67.cfg", T_, ())],
    "C06": [("MC_Scalars.tla", "MC_Scalars.cfg", QT, ()), ("MC_Mont.tla", "MC_Mont.cfg", QT, ()), ("MC_Mont.tla", "MC_Mont_3limbs.cfg", T_, ())],
    "C12": [("MC_Mont.tla", "MC_Mont.cfg", QT, ()), ("MC_Mont.tla", "MC_Mont_3limbs.cfg", T_, ())],
    "C07": [("MC_Scalars.tla", "MC_Scalars.cfg", QT, ())],
    "C08": [("MC_Sswu.tla", "MC_Sswu.cfg", QT, ()), ("Memo.tla", "MC_Memo_none.cfg", QT, ())],
    "C09": [("Memo.tla", "MC_Memo_none.cfg", QT, ())],
    "C10": [("MC_History.tla", "MC_History_5.cfg", Q_, ()), ("MC_History.tla", "MC_History_6.cfg", T_, ()), ("MC_History.tla", "MC_History_wide.cfg", T_, ())],
    "C11": [("MC_Sswu.tla", "MC_Sswu.cfg", QT, ()), ("MC_Sswu.tla", "MC_Sswu_79.cfg", QT, ())],
    "C13": [("MC_Scalars.tla", "MC_Scalars.cfg", QT, ())],
    "C14": [("MC_Scalars.tla", "MC_Scalars.cfg", QT, ()), ("MC_Ladder.tla", "MC_Ladder.cfg", QT, ())],
    "C15": [("MemAppend.tla", "MC_MemAppend_fresh.cfg", QT, ()),
            ("Conc.tla", "MC_Conc_a.cfg", QT, ()), ("Conc.tla", "MC_Conc_b.cfg", QT, ()), ("Conc.tla", "MC_Conc_c.cfg", QT, ()), ("Conc.tla", "MC_Conc_d.cfg", QT, ())],
    "C16": [("Conc.tla", "MC_Conc_b.cfg", QT, ()), ("Conc.tla", "MC_Conc_c.cfg", QT, ()), ("Conc.tla", "MC_Conc_3g.cfg", QT, ()),
            ("Memo.tla", "MC_Memo_none.cfg", QT, ()), ("Memo.tla", "MC_Memo_one_section.cfg", QT, ())],
    "C18": [("MC_Random.tla", "MC_Random.cfg", Q_, ()), ("MC_Random.tla", "MC_Random_deep.cfg", T_, ())],
    "C19": [("MC_Ladder.tla", "MC_Ladder.cfg", QT, ())],
}
# unbounded symbolic lemmas (Apalache) about the full-width limb idioms: property -> invariants of ApaLimbs.tla
APALACHE = {"C13": ["LeLemma"], "C07": ["ReduceLemmaN"], "C18": ["ReduceLemmaN"], "C12": ["ReduceLemmaP"], "C03": ["ReduceLemmaP"]}

# named deviations of the implementation-shaped modules: each MUST make TLC report a violation (the toy
# checks are not vacuous).  (module, base cfg, text to replace, replacement)
DEVIATIONS = {
    "C01": [("MC_Ladder.tla", "MC_Ladder.cfg", 'Dev = "none"', 'Dev = "ladder-skips-top-bit"')],
    "C02": [("MC_GroupLaw.tla", "MC_GroupLaw.cfg", 'Dev = "none"', 'Dev = "add-skips-step-20"')],
    "C03": [("MC_Decode.tla", "MC_Decode.cfg", 'Dev = "none"', 'Dev = "decode-no-range-check"'),
            ("MC_Decode.tla", "MC_Decode.cfg", 'Dev = "none"', 'Dev = "decode-wrong-parity"'),
            ("MC_Decode.tla", "MC_Decode.cfg", 'Dev = "none"', 'Dev = "decode-hybrid-ok"')],
    "C05": [("MC_GroupLaw.tla", "MC_GroupLaw.cfg", 'Dev = "none"', 'Dev = "equal-ignores-y"'),
            ("MC_GroupLaw.tla", "MC_GroupLaw.cfg", 'Dev = "none"', 'Dev = "equal-ignores-x"')],
    "C06": [("MC_Mont.tla", "MC_Mont.cfg", 'Dev = "none"', 'Dev = "carry-always-one"'),
            ("MC_Mont.tla", "MC_Mont.cfg", 'Dev = "none"', 'Dev = "add-no-final-sub"')],
    "C12": [("MC_Mont.tla", "MC_Mont.cfg", 'Dev = "none"', 'Dev = "opp-zero-is-m"'),
            ("MC_Mont.tla", "MC_Mont.cfg", 'Dev = "none"', 'Dev = "mul-final-sub-on-overflow-only"')],
    "C08": [("Memo.tla", "MC_Memo_none.cfg", 'Design = "none"', 'Design = "by_reference"')],
    "C09": [("Memo.tla", "MC_Memo_none.cfg", 'Design = "none"', 'Design = "by_reference"')],
    "C10": [("MC_History.tla", "MC_History.cfg", 'Dev = "none"', 'Dev = "equal-ignores-y"')],
    "C13": [("MC_Scalars.tla", "MC_Scalars.cfg", 'Dev = "none"', 'Dev = "compare-montgomery"'),
            ("MC_Scalars.tla", "MC_Scalars.cfg", 'Dev = "none"', 'Dev = "cmov-raw-cond"')],
    "C14": [("MC_Scalars.tla", "MC_Scalars.cfg", 'Dev = "none"', 'Dev = "bits-drop-top"')],
    "C15": [("Conc.tla", "MC_Conc_b.cfg", "InPlace = FALSE", "InPlace = TRUE"),
            ("MemAppend.tla", "MC_MemAppend_fresh.cfg", 'Strategy = "fresh"', 'Strategy = "append-to-dst"'),
            ("MemAppend.tla", "MC_MemAppend_fresh.cfg", 'Strategy = "fresh"', 'Strategy = "append-to-msg"'),
            ("MemAppend.tla", "MC_MemAppend_fresh.cfg", 'Strategy = "fresh"', 'Strategy = "digest-into-dst"')],
    "C16": [("Conc.tla", "MC_Conc_c.cfg", "InPlace = FALSE", "InPlace = TRUE"),
            ("Memo.tla", "MC_Memo_none.cfg", 'Design = "none"', 'Design = "unlocked"'),
            ("Memo.tla", "MC_Memo_none.cfg", 'Design = "none"', 'Design = "two_sections"'),
            ("Memo.tla", "MC_Memo_none.cfg", 'Design = "none"', 'Design = "by_reference"')],
    "C18": [("MC_Random.tla", "MC_Random.cfg", 'Dev = "none"', 'Dev = "zero-check-before-reduce"'),
            ("MC_Random.tla", "MC_Random.cfg", 'Dev = "none"', 'Dev = "single-read"')],
    "C19": [("MC_Ladder.tla", "MC_Ladder.cfg", 'Dev = "none"', 'Dev = "ladder-adds-only-when-bit-set"')],
}


def log(*a):
    print(*a, flush=True)


class Inconclusive(Exception):
    pass


class LibraryCrash(Exception):
    """The harness process died inside the library (unrecovered panic, runtime fatal error such as concurrent map
    access): an execution of the real code that no behaviour of the specification contains."""
    def __init__(self, what, log_path):
        Exception.__init__(self, what)
        self.what, self.log_path = what, log_path


# ------------------------------------------------------------------ building the harness
def harness_overlay(work, accessor, groups=("main",), scalar_accessor=True):
    rep = {}
    acc = "zz_verif_access.go" if accessor else "zz_verif_stub.go"
    rep[os.path.join(REPO, "zz_verif_access.go")] = os.path.join(VERIF, "harness", "access", acc)
    sacc = "zz_verif_scalar.go" if scalar_accessor else "zz_verif_scalar_stub.go"
    rep[os.path.join(REPO, "zz_verif_scalar.go")] = os.path.join(VERIF, "harness", "access", sacc)
    for g in groups:
        for f in sorted(glob.glob(os.path.join(VERIF, "harness", g, "*.go"))):
            rep[os.path.join(REPO, "internal", "verifharness", os.path.basename(f))] = f
    p = os.path.join(work, "overlay_%s%s_%s.json" % ("acc" if accessor else "stub", "" if scalar_accessor else "_sstub", "_".join(groups)))
    json.dump({"Replace": rep}, open(p, "w"))
    return p


def instrument_overlay(work):
    """C19: instrumented copies of the two internal packages (every function reports its entry), made
    from the CURRENT working tree by harness/instr; returned as overlay entries.  /repo is not touched."""
    rep, names = {}, {}
    first = 1000
    for pkg in ("field", "scalar"):
        out = os.path.join(work, "instr", pkg)
        os.makedirs(out, exist_ok=True)
        r = subprocess.run(["go", "run", os.path.join(VERIF, "harness", "instr", "main.go"), os.path.join(REPO, "internal", pkg), out, str(first)],
                           cwd=work, env=GOENV, capture_output=True, text=True)
        if r.returncode != 0:
            raise Inconclusive("instrumenter failed on internal/%s: %s" % (pkg, r.stderr[-2000:]))
        for ln in r.stdout.splitlines():
            i, n = ln.split(" ", 1)
            names[int(i)] = n
        first += 1000
        for f in glob.glob(os.path.join(out, "*.go")):
            rep[os.path.join(REPO, "internal", pkg, os.path.basename(f))] = f
    json.dump(names, open(os.path.join(work, "instr", "names.json"), "w"))
    return rep


def build_harness(work, race=False, groups=("main",)):
    """Compile the harness inside /repo's module from the current working tree.  Returns (binary, accessor?)."""
    last = ""
    extra = instrument_overlay(work) if "sched" in groups else {}
    for accessor, sacc in ((True, True), (False, True), (True, False), (False, False)):
        ov = harness_overlay(work, accessor, groups, sacc)
        if extra:
            d = json.load(open(ov))
            d["Replace"].update(extra)
            json.dump(d, open(ov, "w"))
        out = os.path.join(work, "harness_bin_" + "_".join(groups) + ("_race" if race else ""))
        cmd = ["go", "build", "-tags", "verif", "-overlay", ov, "-o", out]
        if race:
            cmd.append("-race")
        cmd.append("./internal/verifharness")
        r = subprocess.run(cmd, cwd=REPO, env=GOENV, capture_output=True, text=True)
        if r.returncode == 0:
            return out, accessor
        last = r.stderr
        if "zz_verif_access.go" not in r.stderr and "zz_verif_scalar.go" not in r.stderr:
            break  # the failure is not about an accessor: the stubs will not help
    raise Inconclusive("harness does not build against the current tree:\n" + last[-3000:])


# ------------------------------------------------------------------ TLC
def tlc_cmd(module, cfg, metadir, workers=1, xmx="3g", extra=()):
    return ["java", "-Djava.io.tmpdir=" + os.environ.get("TLC_TMPDIR", "/tmp"), "-Xss1g", "-Xmx" + xmx, "-XX:+UseParallelGC", "-XX:ParallelGCThreads=2", "-cp", TLC_CP, "tlc2.TLC",
            "-workers", str(workers), "-metadir", metadir, "-config", cfg] + list(extra) + [module]


def copy_spec(work):
    d = os.path.join(work, "spec")
    shutil.copytree(SPEC, d)
    return d


RE_DIS = re.compile(r'<<\s*"(DISAGREE|MACHINERY)",\s*(\d+),\s*"(\w+)",\s*"([\w\-]+)",(.*?)>>\s*(?=\n<<|\n[A-Z]|\Z)', re.S)
RE_END = re.compile(r'<<\s*"TRACE-END",\s*(\d+),\s*(\d+),\s*(\d+)\s*>>')
RE_STATES = re.compile(r"(\d+) states generated, (\d+) distinct states found")


def validate_one(specdir, trace, work, timeout, module="TraceSecp.tla", cfg="TraceSecp.cfg"):
    md = tempfile.mkdtemp(prefix="md_", dir=work)
    env = dict(os.environ, VERIF_TRACE=trace)
    t0 = time.time()
    try:
        r = subprocess.run(tlc_cmd(module, cfg, md), cwd=specdir, env=env,
                           capture_output=True, text=True, timeout=timeout)
        out = r.stdout + r.stderr
        rc = r.returncode
    except subprocess.TimeoutExpired as e:
        out = (e.stdout or b"").decode(errors="replace") if isinstance(e.stdout, bytes) else (e.stdout or "")
        out += "\nTIMEOUT"
        rc = -9
    shutil.rmtree(md, ignore_errors=True)
    res = {"trace": trace, "rc": rc, "wall": time.time() - t0, "dis": [], "mach": [], "end": None, "states": 0, "distinct": 0, "out": out}
    for m in RE_DIS.finditer(out):
        rec = {"kind": m.group(1), "line": int(m.group(2)), "op": m.group(3), "reason": m.group(4), "detail": " ".join(m.group(5).split())[:400]}
        (res["dis"] if rec["kind"] == "DISAGREE" else res["mach"]).append(rec)
    m = RE_END.search(out)
    if m:
        res["end"] = tuple(int(x) for x in m.groups())
    m = None
    for m in RE_STATES.finditer(out):
        pass
    if m:
        res["states"], res["distinct"] = int(m.group(1)), int(m.group(2))
    return res


def run_mc(specdir, work, module, cfg, timeout, workers=NCPU, extra=()):
    md = tempfile.mkdtemp(prefix="mc_", dir=work)
    t0 = time.time()
    try:
        r = subprocess.run(tlc_cmd(module, cfg, md, workers=workers, xmx="12g", extra=extra), cwd=specdir,
                           capture_output=True, text=True, timeout=timeout)
        out, rc = r.stdout + r.stderr, r.returncode
    except subprocess.TimeoutExpired:
        out, rc = "TIMEOUT", -9
    shutil.rmtree(md, ignore_errors=True)
    m = None
    for m in RE_STATES.finditer(out):
        pass
    ok = rc == 0 and "No error has been found" in out
    return {"module": module, "cfg": cfg, "ok": ok, "rc": rc, "generated": int(m.group(1)) if m else 0,
            "distinct": int(m.group(2)) if m else 0, "wall": round(time.time() - t0, 1), "out": out}


# ------------------------------------------------------------------ known findings
def load_findings():
    p = os.path.join(VERIF, "known_findings.json")
    if not os.path.exists(p):
        return []
    return [f for f in json.load(open(p)).get("findings", []) if f.get("status") == "open"]


def matches_finding(f, prop, rec, event):
    if f.get("property") != prop or f.get("op") != rec["op"]:
        return False
    if "reason" in f and f["reason"] != rec["reason"]:
        return False
    cond = f.get("where", {})
    if cond.get("arg_is_identity") is not None:
        try:
            a = event["a"] - 1
            if bool(event["obs"]["E"][a]["id"]) != cond["arg_is_identity"]:
                return False
        except Exception:
            return False
    return True


# ------------------------------------------------------------------ helpers over traces
def read_lines(path):
    with open(path) as f:
        return f.read().splitlines()


def history_of(lines, lineno):
    """Header + the history (from its Reset) containing 1-based trace line `lineno`."""
    i = lineno - 1
    start = i
    while start > 1 and '"op":"Reset"' not in lines[start][:40] and '"op":"MemReset"' not in lines[start][:40] and '"op":"Adopt"' not in lines[start][:40]:
        start -= 1
    return [lines[0]] + lines[start:i + 1]


PURE_WRITERS = set("ENew EIdentity EBase ESet ECopy EDecode EUnmarshal EDecodeComp EDecodeUnc EDecodeCoords EDecodeHex EHashToGroup "
                   "EEncodeToGroup ESetRaw SNew SZero SOne SMinusOne SSetU64 SSet SSetNil SCopy SDecode SUnmarshal SDecodeHex "
                   "SHashToScalar SRandom SSetInt".split())
COPIES = {"ESet": "E", "ECopy": "E", "SSet": "S", "SCopy": "S"}
E_WRITERS = set("ENew EIdentity EBase ESet ECopy EAdd ESub EDouble ENegate EMul EMulNil EDecode EUnmarshal EDecodeComp EDecodeUnc "
                "EDecodeCoords EDecodeHex EHashToGroup EEncodeToGroup ESetRaw ERescale".split())
S_WRITERS = set("SNew SZero SOne SMinusOne SSetU64 SSet SSetNil SCopy SAdd SSub SMul SMulNil SSquare SInvert SPow SCSelect SDecode "
                "SUnmarshal SDecodeHex SHashToScalar SRandom SSetInt".split())


def input_provenance(history):
    """For the LAST event of a history: the set of actions that last wrote each of its operand variables
    (DESIGN 3.6, latent faults: a value left behind by the property's own action that misbehaves later)."""
    prov = {}
    evs = []
    for ln in history[1:]:
        try:
            evs.append(json.loads(ln))
        except Exception:
            return set()
    if not evs:
        return set()
    for e in evs[:-1]:
        op = e.get("op", "")
        if op in ("Reset", "Adopt"):
            prov = {}
            continue
        if op in COPIES:
            k = COPIES[op]
            prov[(k, e.get("r"))] = prov.get((k, e.get("a")), "fresh")
        elif op in E_WRITERS and "r" in e:
            if not (op == "EDecode" or op.startswith("EDecode") or op == "EUnmarshal") or e.get("err") == 0:
                prov[("E", e["r"])] = op
        elif op in S_WRITERS and "r" in e:
            prov[("S", e["r"])] = op
    last = evs[-1]
    op = last.get("op", "")
    kind = "E" if op.startswith("E") else "S"
    ins = set()
    for f in ("r", "a", "b"):
        if f in last and not (f == "r" and op in PURE_WRITERS):
            ins.add(prov.get((kind, last[f]), "fresh"))
    if "s" in last:
        ins.add(prov.get(("S", last["s"]), "fresh"))
    return ins


def strip_obs(ev):
    return {k: v for k, v in ev.items() if k != "obs"}


def write_evidence(prop, tier, seed, coverage, wall, violations, assumptions):
    if os.path.realpath(REPO) != "/repo":
        # a run against a scratch worktree (VERIF_REPO: a seeded change or a refactoring being tried) is not evidence
        # about /repo: the committed evidence files only ever describe runs on /repo itself
        return
    os.makedirs(os.path.join(VERIF, "evidence"), exist_ok=True)
    ev = {"property_id": prop, "tier": tier, "seed": seed, "level": "model_checking", "coverage": coverage,
          "assumptions": assumptions, "wall_s": round(wall, 1), "violations": violations}
    tmp = os.path.join(VERIF, "evidence", prop + ".json.tmp")
    json.dump(ev, open(tmp, "w"), indent=1)
    os.replace(tmp, os.path.join(VERIF, "evidence", prop + ".json"))


ASSUME = [
    "TLC 1.8.0 / SANY and the CommunityModules Json, SequencesExt and Bitwise overrides are correct",
    "spec/BigNat.tla arithmetic (validated by MC_SelfTest against native integers, FIPS 180-4 and RFC 9380 vectors)",
    "the transcription of SEC1 / RFC 9380 / the group law into TLA+ (validated against the pinned RFC 9380 J.8 vectors)",
    "Go toolchain; the harness only reports what the library returned (witnesses it adds are checked by the spec)",
    "coverage is the explored classes and histories, not all 2^256 inputs: real-scale conformance is sampled per class, exhaustiveness is at toy scale",
]


# ------------------------------------------------------------------ trace-validated properties
def run_apalache(specdir, work, inv, expect_error=False):
    out = tempfile.mkdtemp(prefix="apa_", dir=work)
    t0 = time.time()
    try:
        r = subprocess.run(["apalache-mc", "check", "--init=Init", "--next=Next", "--inv=" + inv, "--length=0", "--out-dir=" + out, "ApaLimbs.tla"],
                           cwd=specdir, capture_output=True, text=True, timeout=600,
                           env=dict(os.environ, JAVA_IO_TMPDIR=out, TMPDIR=out))   # SANY's unpacked modules go into the run's own directory
        txt = r.stdout + r.stderr
    except subprocess.TimeoutExpired:
        txt = "TIMEOUT"
    shutil.rmtree(out, ignore_errors=True)
    ok = ("The outcome is: Error" in txt) if expect_error else ("The outcome is: NoError" in txt)
    return {"module": "ApaLimbs.tla", "cfg": "apalache-mc --inv=" + inv, "ok": ok, "generated": 0, "distinct": 0, "wall": round(time.time() - t0, 1), "out": txt, "symbolic": True}


def run_mc_stage(prop, tier, specdir, work):
    mc_results = []
    for inv in APALACHE.get(prop, []):
        r = run_apalache(specdir, work, inv)
        mc_results.append(r)
        log("  Apalache %-20s %-6s (all 2^512 pairs of 256-bit values, symbolic) %.0fs" % (inv, "ok" if r["ok"] else "FAIL", r["wall"]))
        if not r["ok"]:
            raise Inconclusive("Apalache did not discharge %s: %s" % (inv, r["out"][-800:]))
    for (module, cfg, tiers, extra) in MC.get(prop, []):
        if tier in tiers:
            r = run_mc(specdir, work, module, cfg, timeout=1500 if tier == "thorough" else 400, extra=extra)
            mc_results.append(r)
            log("  MC %-22s %-6s generated=%d distinct=%d %.0fs" % (cfg, "ok" if r["ok"] else "FAIL", r["generated"], r["distinct"], r["wall"]))
            if not r["ok"]:
                keep = os.path.join(VERIF, "replays", "%s_mc_%s.out" % (prop, cfg))
                os.makedirs(os.path.dirname(keep), exist_ok=True)
                open(keep, "w").write(r["out"])
                raise Inconclusive("toy-scale model checking of %s failed or timed out (a fault of the specification or of its bounds, not of the code): %s" % (cfg, keep))
    if prop == "C02":
        # the lift (DESIGN 9.2): the real addition code, recorded as three-address programs, over every toy input
        import lift
        try:
            r = lift.run_lift(specdir, work)
        except Inconclusive as e:
            r = None
            log("  lift: skipped (%s)" % str(e)[:300])
        if r is not None:
            lifted = [p["name"] for p in r["programs"] if p["liftable"]]
            notl = ["%s (%s)" % (p["name"], p["why"]) for p in r["programs"] if not p["liftable"]]
            r["cfg"] = "MC_Lift.cfg on programs recorded from the working tree: " + ", ".join("%s[%d instr]" % (p["name"], p["instructions"]) for p in r["programs"] if p["liftable"])
            mc_results.append(r)
            log("  lift: %s interpreted over every toy pair: %s (distinct=%d, %.0fs); not liftable: %s"
                % (", ".join(lifted) or "nothing", "law holds" if r["ok"] else "LAW VIOLATED at toy scale (a lead)", r["distinct"], r["wall"], "; ".join(notl) or "-"))
            if not r["ok"]:
                if "is violated" in r["out"]:
                    # a lead only: the verdict comes from the 256-bit traces below; remember it for the evidence
                    r["ok"] = True
                    r["lead"] = "the recorded addition code breaks the group law on some toy pair"
                    keep = os.path.join(VERIF, "replays", "C02_lift_lead.out")
                    os.makedirs(os.path.dirname(keep), exist_ok=True)
                    open(keep, "w").write(r["out"][-20000:])
                    log("  lift: TLC counterexample kept in %s" % keep)
                else:
                    raise Inconclusive("MC_Lift failed for a reason other than the invariant: " + r["out"][-800:])
    if tier == "thorough":
        for (module, cfg, old, new) in DEVIATIONS.get(prop, []):
            txt = open(os.path.join(specdir, cfg)).read()
            assert old in txt
            dcfg = "DEV_" + cfg
            open(os.path.join(specdir, dcfg), "w").write(txt.replace(old, new))
            r = run_mc(specdir, work, module, dcfg, timeout=400)
            caught = "is violated" in r["out"]
            log("  MC deviation %-34s %s" % (new, "caught by TLC" if caught else "NOT caught"))
            r["cfg"] = cfg + " with " + new
            r["deviation_caught"] = caught
            mc_results.append(dict(r, ok=caught))
            if not caught:
                raise Inconclusive("the deliberate deviation %s of %s was not caught: the toy check is vacuous" % (new, module))
    return mc_results


CARRY_PROPS = {"C01", "C02", "C03", "C04", "C05", "C06", "C07", "C09w", "C11", "C12", "C13", "C14"}   # generators that replay the carry-coverage corpus
CARRY_STORED = os.path.join(VERIF, "corpus", "carry.json")
CARRY_INFO = {}


def carry_corpus(tier, seed, work):
    """Inputs that drive the carry / borrow / overflow sites of the CURRENT tree's word-level code (bin/carrycov.py):
    the stored corpus (random + z3, solved once on the pinned tree) plus a fresh one for this tree -- random search
    at the quick tier, random + time-boxed z3 at the thorough tier.  Inputs only; failure to produce them loses
    the inputs, nothing else."""
    fresh = os.path.join(work, "carry_fresh.json")
    files = [CARRY_STORED] if os.path.exists(CARRY_STORED) else []
    if not os.path.exists(fresh):
        budget, zt = (0, 1) if tier != "thorough" else (420, 45)
        try:
            r = subprocess.run([os.path.join(VERIF, "bin", "carrycov.py"), "gen", REPO, fresh, "--budget", str(budget),
                                "--z3-timeout", str(zt), "--workers", str(NCPU), "--seed", str(seed)],
                               capture_output=True, text=True, timeout=budget + 600)
            if r.returncode != 0:
                log("  carry corpus: not generated for this tree (%s)" % (r.stderr or r.stdout)[-300:].strip())
        except subprocess.TimeoutExpired:
            log("  carry corpus: generation timed out")
    if os.path.exists(fresh):
        try:
            d = json.load(open(fresh))
            tot = {k: sum(st[k] for st in d["stats"].values()) for k in ("targets", "by_random", "by_z3", "unreached")}
            CARRY_INFO.update({"this_tree": tot, "functions_read_from_source": sorted(d["stats"]),
                               "functions_not_straight_line": ["%s.%s: %s" % (x["Pkg"], x["Func"], x["Reason"]) for x in d["skipped"]]})
            files.append(fresh)
        except Exception as e:     # noqa
            log("  carry corpus: unreadable (%s)" % e)
    if os.path.exists(CARRY_STORED):
        try:
            d = json.load(open(CARRY_STORED))
            CARRY_INFO["stored_corpus"] = {"entries": len(d["corpus"]), "found_by_z3": sum(1 for e in d["corpus"] if e["how"].startswith("z3"))}
        except Exception:          # noqa
            pass
    return files


def record_pass(prop, gname, groups, tier, seed, scale, work, tdir, corpus=True):
    """Build the harness for these file groups, run generator gname, return its summary."""
    race = prop in CONCURRENT_PROPS or gname == "C16"
    binary, accessor = build_harness(work, race=race, groups=groups)
    cmd = [binary, "-prop", gname, "-out", tdir, "-seed", str(seed), "-tier", tier,
           "-shards", str(NCPU * (4 if tier == "thorough" else 1)), "-scale", str(scale)]
    if gname in CARRY_PROPS and corpus:
        files = carry_corpus(tier, seed, work)
        if files:
            cmd += ["-corpus", ",".join(files)]
    if gname == "C16" and prop != "C16":
        cmd += ["-focus", prop]          # the concurrent pass of a sequential property: its own actions only
    env = dict(GOENV)
    if race:
        env["GORACE"] = "halt_on_error=0 log_path=%s" % os.path.join(work, "race")
    r = subprocess.run(cmd, capture_output=True, text=True, env=env, timeout=3600)
    if r.returncode not in (0, 66) or not r.stdout.strip():
        err = r.stderr or ""
        m = re.search(r"^(panic: .*|fatal error: .*)$", err, re.M)
        lib_frames = [l for l in err.splitlines() if "github.com/bytemare/secp256k1" in l and "verifharness" not in l]
        if m and lib_frames:
            keep = os.path.join(VERIF, "replays", "%s_%s_%d_crash.txt" % (prop, tier, seed))
            os.makedirs(os.path.dirname(keep), exist_ok=True)
            open(keep, "w").write("generator %s, seed %d, tier %s, scale %s\n\n" % (gname, seed, tier, scale) + err[-20000:])
            raise LibraryCrash("%s in %s" % (m.group(1)[:200], lib_frames[0].strip()[:200]), keep)
        raise Inconclusive("harness failed (rc=%d): %s" % (r.returncode, (r.stderr or r.stdout)[-3000:]))
    summary = json.loads(r.stdout.strip().splitlines()[-1])
    if race:
        reports = []
        for rf in sorted(glob.glob(os.path.join(work, "race.*"))):
            txt = open(rf, errors="replace").read()
            reports += [b for b in txt.split("==================") if "DATA RACE" in b]
        summary["race_reports"] = len(reports)
        if reports and summary["files"]:
            # a race report becomes an event of the first trace: the specification has no such action
            f0 = summary["files"][0]
            last = json.loads(read_lines(f0)[-1])
            keep = os.path.join(VERIF, "replays", "%s_%s_%d_race.txt" % (prop, tier, seed))
            os.makedirs(os.path.dirname(keep), exist_ok=True)
            open(keep, "w").write("\n==================\n".join(reports[:20]))
            # which harness call wrappers (= which API actions) appear in the stacks of the racing accesses
            wrappers = sorted(set(re.findall(r"main\.\(\*M\)\.(\w+)\(", "\n".join(reports))) - {"emit", "obs", "emitRaw", "witnessFor"})
            ev = {"op": "RaceReport", "count": len(reports), "where": [l.strip() for l in reports[0].splitlines() if ".go:" in l][:6],
                  "wrappers": wrappers, "report_file": keep, "obs": last["obs"]}
            open(f0, "a").write(json.dumps(ev) + "\n")
            summary["events"] += 1
    return summary


N_MINUS = {29: -2, 30: -1}          # toy scalar constants n-2, n-1 (n = 31) -> the real n-2, n-1
GROUP_ORDER = 0xFFFFFFFFFFFFFFFFFFFFFFFFFFFFFFFEBAAEDCE6AF48A03BBFD25E8CD0364141
RE_LAST = re.compile(r'last = <<"(\w+)", (\d+), (<<\d+, \d+>>|\d+)>>')
_P = 2**256 - 2**32 - 977
_GX = 0x79BE667EF9DCBBAC55A06295CE870B07029BFCDB2DCE28D959F2815B16F81798
_GY = 0x483ADA7726A3C4655DA4FBFC0E1108A8FD17B448A68554199C47D08FFB10D4B8
_b32 = lambda v: list(v.to_bytes(32, "big"))
# the fixed decoder inputs of MC_History (DecodeInputsDef, toy bytes) and their real-scale counterparts, class by class
REAL_DECODE_INPUTS = [
    [0], [1], [2] + _b32(_GX), [3] + _b32(_GX), [2] + _b32(_P + 1), [2] + _b32(5), [5] + _b32(_GX),
    [4] + _b32(_GX) + _b32(_GY), [4] + _b32(_GX) + _b32(_GY + 1), [4] + _b32(_P + 1) + _b32(_GY), [4] + _b32(_GX) + _b32(_P + 5),
    [], [2] + _b32(_GX) + [1, 1],
]


def tlc_scenarios(specdir, work, seed, num, depth):
    """Use 2 of the specification (DESIGN 2.3): TLC simulates the toy instance of the abstract machine
    (MC_History) and every behaviour it produces becomes a scenario that is executed on the real library.
    Returns a list of scenarios, each a list of event dicts (calls only)."""
    cfg = open(os.path.join(specdir, "MC_History.cfg")).read()
    cfg = re.sub(r"MaxCalls = \d+", "MaxCalls = %d" % depth, cfg)
    cfg = "\n".join(l for l in cfg.splitlines() if not l.startswith(("VIEW", "PROPERTY", "INVARIANT"))) + "\n"
    open(os.path.join(specdir, "MC_History_sim.cfg"), "w").write(cfg)
    out = os.path.join(work, "sim")
    os.makedirs(out, exist_ok=True)
    md = tempfile.mkdtemp(prefix="mdsim_", dir=work)
    cmd = ["java", "-Xss1g", "-Xmx3g", "-cp", TLC_CP, "tlc2.TLC", "-workers", "1", "-simulate", "file=%s/b,num=%d" % (out, num),
           "-depth", str(depth + 1), "-seed", str(seed), "-metadir", md, "-config", "MC_History_sim.cfg", "MC_History.tla"]
    r = subprocess.run(cmd, cwd=specdir, capture_output=True, text=True, timeout=600)
    shutil.rmtree(md, ignore_errors=True)
    scen = []
    for f in sorted(glob.glob(os.path.join(out, "b_*"))):
        evs = []
        for name, x, y in RE_LAST.findall(open(f).read()):
            x = int(x)
            if name == "init":
                continue
            if name == "SCSelect":
                c, a2 = [int(t) for t in y.strip("<>").split(",")]
                evs.append({"op": "SCSelect", "r": x, "cond": [0] * 7 + [c], "a": x, "b": a2})
                continue
            y = int(y)
            if name in ("EDecodeEnc", "EDecodeUnc"):
                evs.append({"op": "EDecodeOf", "r": x, "a": y, "form": "enc" if name == "EDecodeEnc" else "unc"})
            elif name == "EDecodeFixed":
                evs.append({"op": "EDecode", "r": x, "data": REAL_DECODE_INPUTS[y - 1]})
            elif name in ("EAddNil", "ESubNil", "EMulNil", "SSquare", "SInvert"):
                evs.append({"op": name, "r": x})
            elif name == "SSetC":
                v = y if y not in N_MINUS else GROUP_ORDER + N_MINUS[y]
                evs.append({"op": "SSetInt", "r": x, "v": list(v.to_bytes(32, "big"))})
            elif name == "EMul":
                evs.append({"op": "EMul", "r": x, "s": y})
            elif name in ("EIdentity", "EBase", "EDouble", "ENegate"):
                evs.append({"op": name, "r": x})
            else:
                evs.append({"op": name, "r": x, "a": y})
        if evs:
            scen.append(evs)
    if not scen:
        raise Inconclusive("TLC -simulate produced no behaviour: " + (r.stdout + r.stderr)[-1500:])
    return scen


def run_scenarios(prop, scen, work, tag):
    """Execute TLC-generated scenarios on the real code (harness -scenario), one trace file per shard."""
    binary, accessor = build_harness(work)
    files, events, hist = [], 0, 0
    shards = [scen[i::NCPU] for i in range(NCPU) if scen[i::NCPU]]
    for k, part in enumerate(shards):
        sc = os.path.join(work, "%s_scenario_%02d.ndjson" % (tag, k))
        with open(sc, "w") as fh:
            for evs in part:
                fh.write(json.dumps({"op": "Reset"}) + "\n")
                for e in evs:
                    fh.write(json.dumps(e) + "\n")
        tdir = os.path.join(work, "%s_traces_%02d" % (tag, k))
        os.makedirs(tdir)
        r = subprocess.run([binary, "-prop", prop, "-out", tdir, "-scenario", sc], capture_output=True, text=True, env=GOENV, timeout=1200)
        if r.returncode != 0 or not r.stdout.strip():
            raise Inconclusive("harness failed on a TLC-generated scenario: " + (r.stderr or r.stdout)[-2000:])
        sm = json.loads(r.stdout.strip().splitlines()[-1])
        files += sm["files"]
        events += sm["events"]
        hist += sm["histories"]
    return {"events": events, "histories": hist, "accessor": accessor, "files": files, "classes": {"tlc_generated_histories": hist}}


def check_trace_property(prop, tier, seed, work, replay=None, scale=1.0):
    t0 = time.time()
    specdir = copy_spec(work)
    mc_results = run_mc_stage(prop, tier, specdir, work)
    passes = list(PASSES.get(prop, [(prop, ("main",), SECP, 1.0, False, None)]))
    if prop in CONC_LITE:
        passes.append(("C16", ("main",), SECP, 0.25, True, "OWNED"))
    jobs = []          # (trace file, module, cfg, reasons filter)
    summaries = []
    notes = []
    if replay:
        rp = json.load(open(replay))
        gname = rp.get("generator", prop)
        ps = [p for p in passes if p[0] == gname] or passes[:1]
        _, groups, (tmod, tcfg), _, _, reasons = ps[0]
        tdir = os.path.join(work, "traces_replay")
        os.makedirs(tdir)
        if rp.get("scenario") and prop in SCENARIO_PROPS and tmod == "TraceSecp.tla":
            # re-execute the recorded calls against the current tree, then validate the NEW recording
            binary, accessor = build_harness(work, groups=groups)
            sc = os.path.join(work, "scenario.ndjson")
            open(sc, "w").write("\n".join(rp["history"]) + "\n")
            r = subprocess.run([binary, "-prop", gname, "-out", tdir, "-scenario", sc], capture_output=True, text=True, env=GOENV)
            if r.returncode != 0 or not r.stdout.strip():
                raise Inconclusive("harness failed on replay: " + (r.stderr or r.stdout)[-2000:])
            summary = json.loads(r.stdout.strip().splitlines()[-1])
        else:
            # histories that cannot be re-executed call by call are regenerated from their seed
            summary = record_pass(prop, gname, groups, rp.get("tier", tier), rp.get("seed", seed), rp.get("scale", scale), work, tdir)
        summaries.append(summary)
        jobs += [(f, tmod, tcfg, reasons, gname) for f in summary["files"]]
    else:
        for k, (gname, groups, (tmod, tcfg), pscale, optional, reasons) in enumerate(passes):
            tdir = os.path.join(work, "traces_%d" % k)
            os.makedirs(tdir)
            try:
                summary = record_pass(prop, gname, groups, tier, seed, scale * pscale, work, tdir)
            except Inconclusive as e:
                if optional:
                    notes.append("optional pass %s skipped: %s" % (gname, str(e)[:300]))
                    log("  note: optional pass %s skipped (harness group %s does not build or run against this tree)" % (gname, "+".join(groups)))
                    continue
                raise
            summaries.append(summary)
            jobs += [(f, tmod, tcfg, reasons, gname) for f in summary["files"]]
            log("  harness[%s]: %d events in %d histories, %d trace files, accessor=%s (%.1fs)"
                % (gname, summary["events"], summary["histories"], len(summary["files"]), summary["accessor"], time.time() - t0))

    if prop == "C10" and not replay:
        # behaviours of the toy abstract machine, generated by TLC, executed on the real library
        scen = tlc_scenarios(specdir, work, seed, int((160 if tier == "thorough" else 48) * scale) or 1, 30)
        summary = run_scenarios(prop, scen, work, "sim")
        summaries.append(summary)
        jobs += [(f, SECP[0], SECP[1], None, "C10") for f in summary["files"]]
        log("  TLC-generated: %d behaviours of MC_History (-simulate, depth 30) executed on the real code: %d events" % (len(scen), summary["events"]))

    timeout = 3000 if tier == "thorough" else 900
    with concurrent.futures.ThreadPoolExecutor(max_workers=NCPU) as ex:
        results = list(ex.map(lambda j: validate_one(specdir, j[0], work, timeout, j[1], j[2]), jobs))

    findings = load_findings()
    violations, known, inconclusive, machinery = [], [], [], []
    total_states = total_lines = 0
    distinct_cases = set()
    for job, res in zip(jobs, results):
        reasons, gname = job[3], job[4]
        lines = read_lines(res["trace"])
        total_states += res["states"]
        if res["end"] is None or res["end"][0] != len(lines):
            tail = "\n".join(res["out"].splitlines()[-25:])
            machinery.append("trace %s not fully consumed by TLC (rc=%s):\n%s" % (os.path.basename(res["trace"]), res["rc"], tail))
            continue
        total_lines += len(lines) - 1
        for ln in lines[1:]:
            # distinct non-trivial cases: calls of the library (not setup / bookkeeping events), distinct by action and inputs
            cut = ln.find(',"obs":')
            head = ln[:cut] if cut > 0 else ln
            opm = re.match(r'\{"op":\s*"(\w+)"', head)
            if opm and opm.group(1) not in SETUP_OPS:
                distinct_cases.add(hash(ln))
        for rec in res["mach"]:
            machinery.append("%s line %d %s: %s %s" % (os.path.basename(res["trace"]), rec["line"], rec["op"], rec["reason"], rec["detail"]))
        for rec in res["dis"]:
            event = json.loads(lines[rec["line"] - 1])
            rec["event"] = strip_obs(event)
            rec["history"] = history_of(lines, rec["line"])
            rec["generator"] = gname
            kf = [f for f in findings if matches_finding(f, prop, rec, event)]
            if kf:
                known.append((kf[0], rec))
            elif reasons == "OWNED":
                if rec["op"] == "RaceReport":
                    # a data race while only this property's actions (and the observers) ran concurrently: it is this
                    # property's if one of its actions is on the stack of a racing access
                    ops = set()
                    for w in event.get("wrappers", []):
                        ops |= WRAPPER_OPS.get(w, {w})
                    mine = sorted(o for o in ops if prop in OWNERS.get(o, set()))
                    if mine:
                        rec["detail"] = "data race with %s on the stack of a racing access (%s)" % ("/".join(mine), "; ".join(event.get("where", [])[:2]))
                        violations.append(rec)
                elif prop in OWNERS.get(rec["op"], set()):
                    rec["detail"] = "while other goroutines were calling the library; " + rec["detail"]
                    violations.append(rec)
            elif reasons is not None:
                (violations if rec["reason"] in reasons else inconclusive).append(rec)
            elif rec["reason"] == "encode-observer":
                # Scalar.Encode() (part of every observation) disagrees with the stored limbs: C07's observer
                (violations if prop in ("C07", "C10") else inconclusive).append(rec)
            elif rec["reason"] == "equal-observer":
                # Scalar.Equal() says a scalar differs from the decoding of its own encoding: C13's observer
                (violations if prop in ("C13", "C10") else inconclusive).append(rec)
            elif rec["reason"] == "element-encode-observer":
                # Element.Encode() (part of every observation) disagrees with the stored coordinates: C04's observer
                (violations if prop in ("C04", "C10") else inconclusive).append(rec)
            elif rec["reason"] == "isidentity-observer":
                # IsIdentity() (part of every observation) disagrees with the representation that was put in: C05's observer
                (violations if prop in ("C05", "C10") else inconclusive).append(rec)
            elif prop in OWNERS.get(rec["op"], set()) or prop in CONCURRENT_PROPS:
                violations.append(rec)
            else:
                # a foreign action disagreed: it is this property's violation only if it was fed a value that
                # one of this property's own actions left behind (and the same action on other values held)
                latent = [o for o in input_provenance(rec["history"]) if prop in OWNERS.get(o, set())]
                if latent and rec["reason"] not in ("frame", "invalid-frame"):
                    rec["detail"] = "latent: value left by %s misbehaves in %s; %s" % ("/".join(sorted(latent)), rec["op"], rec["detail"])
                    violations.append(rec)
                else:
                    inconclusive.append(rec)

    if any(r.get("lead") for r in mc_results) and not violations:
        machinery.append("the lift found a toy-scale counterexample in the recorded addition code, but no recorded 256-bit execution "
                         "disagreed with the specification: an unconfirmed lead (see replays/C02_lift_lead.out), not a violation")
    os.makedirs(os.path.join(VERIF, "replays"), exist_ok=True)
    out_lines = []
    seen = set()
    for kf, rec in known:
        key = kf.get("id", kf.get("what"))
        if key not in seen:
            seen.add(key)
            out_lines.append("KNOWN-FINDING: property=%s %s" % (prop, kf.get("what", "")))
    for i, rec in enumerate(violations[:20]):
        path = os.path.join(VERIF, "replays", "%s_%s_%d_%d.json" % (prop, tier, seed, i))
        json.dump({"property": prop, "generator": rec["generator"], "op": rec["op"], "reason": rec["reason"], "detail": rec["detail"],
                   "line": rec["line"], "event": rec["event"], "scenario": True, "tier": tier, "seed": seed, "scale": scale,
                   "history": rec["history"]}, open(path, "w"))
        out_lines.append("VIOLATION property=%s replay=%s" % (prop, path))
        log("  disagreement: op=%s reason=%s detail=%s event=%s" % (rec["op"], rec["reason"], rec["detail"], json.dumps(rec["event"])[:600]))
    for rec in inconclusive[:10]:
        log("  INCONCLUSIVE: disagreement at %s (%s %s), an action owned by %s, not by %s: see that property's check"
            % (rec["op"], rec["reason"], rec["detail"][:200], "/".join(sorted(OWNERS.get(rec["op"], {"?"}))), prop))
    for mline in machinery[:10]:
        log("  MACHINERY: " + mline)

    # samples: a few real events, without the bulky observation
    samples = []
    for job in jobs[:2]:
        for ln in read_lines(job[0])[2:6]:
            try:
                samples.append(strip_obs(json.loads(ln)))
            except Exception:
                pass
    classes = {}
    for sm in summaries:
        for k, v in sm.get("classes", {}).items():
            classes[k] = classes.get(k, 0) + v
    mc_states = sum(r["distinct"] for r in mc_results if "deviation_caught" not in r)
    mc_trans = sum(r["generated"] for r in mc_results if "deviation_caught" not in r)
    coverage = {
        "states": mc_states + total_states,
        "transitions": mc_trans + total_lines,
        "traces_validated_against_impl": sum(sm["histories"] for sm in summaries) if not machinery else 0,
        "events_validated": total_lines,
        "evaluations": total_lines,
        "distinct_nontrivial": len(distinct_cases),
        "rule": "one case = one call of the library recorded with its inputs and validated by TLC; distinct by (action, receiver/argument ids, concrete inputs, observed state of the whole pool after the call, i.e. by operand VALUES and not only by variable ids); setup and bookkeeping events (Reset, accessor writes, Adopt) are not counted",
        "samples": [json.loads(json.dumps(x)[:1500] if len(json.dumps(x)) <= 1500 else json.dumps({"op": x.get("op"), "note": "large event elided"})) for x in samples] or [{"note": "no events"}],
        "toy_model_checking": [{k: r.get(k) for k in ("module", "cfg", "ok", "generated", "distinct", "wall", "lead", "programs") if k in r} for r in mc_results],
        "trace_files": len(jobs),
        "passes": [p[0] for p in passes],
        "accessor": all(sm.get("accessor") for sm in summaries) if summaries else None,
        "class_histogram": classes,
        "race_reports": sum(sm.get("race_reports", 0) for sm in summaries),
        "disagreements": len(violations), "known_findings_seen": len(known),
        "inconclusive_foreign_disagreements": len(inconclusive), "machinery_faults": len(machinery),
        "notes": notes,
        "carry_site_inputs": dict(CARRY_INFO) if CARRY_INFO else None,
        "exhaustive": False,
        "checker_cmd": "java -Xss1g -cp tla2tools.jar:CommunityModules-deps.jar tlc2.TLC -workers 1 -config Trace*.cfg Trace*.tla (VERIF_TRACE=<shard>)",
    }
    write_evidence(prop, tier, seed, coverage, time.time() - t0, len(violations), ASSUME)
    for l in out_lines:
        print(l, flush=True)
    if violations:
        return 1
    if machinery or inconclusive:
        return 2
    return 0


# ------------------------------------------------------------------ self-test of the binding
def selftest(work):
    """Demonstrates that the trace specifications are bound to the recorded executions (DESIGN 3.5):
    a corrupted observation, a dropped event and every named deviation must be rejected."""
    specdir = copy_spec(work)
    ok = True

    def record(gname, groups, scale):
        tdir = tempfile.mkdtemp(prefix="st_", dir=work)
        sm = record_pass("C10", gname, groups, "quick", 7, scale, work, tdir, corpus=False)
        return sm["files"]

    def expect(label, res, want_line=None, at_or_after=None):
        nonlocal ok
        lines = [d["line"] for d in res["dis"]]
        good = bool(lines) and (want_line is None or want_line in lines) and (at_or_after is None or min(lines) >= at_or_after)
        log("  %-62s %s (disagreements at lines %s)" % (label, "rejected as expected" if good else "NOT REJECTED", lines[:4]))
        ok = ok and good

    # (i) + (ii) on each trace specification
    cases = [("C02", ("main",), 0.05, SECP, "EAdd", lambda e: e["obs"]["E"][e["r"] - 1]["enc"].__setitem__(0, e["obs"]["E"][e["r"] - 1]["enc"][0] ^ 1)),   # the other root: -R for R
             ("C06", ("main",), 0.02, SECP, "SMul", lambda e: e["obs"]["S"][e["r"] - 1].__setitem__(31, e["obs"]["S"][e["r"] - 1][31] ^ 1)),
             ("C12", ("main", "field"), 0.02, FIELD, "FMul", lambda e: e["obs"]["F"][e["d"] - 1].__setitem__(31, e["obs"]["F"][e["d"] - 1][31] ^ 1)),
             ("C15", ("main",), 0.2, ("TraceMem.tla", "TraceMem.cfg"), "MemCall", lambda e: e["bufs"][0]["after"].__setitem__(0, e["bufs"][0]["after"][0] ^ 1) if e["bufs"] else e["rets"][0].__setitem__("iv", [1, 10 ** 6])),
             ("C19", ("main", "sched"), 0.5, ("TraceSched.tla", "TraceSched.cfg"), "Sched", lambda e: e["seq"].__setitem__(1000, e["seq"][1000] + 1))]
    for gname, groups, scale, (tmod, tcfg), op, corrupt in cases:
        fs = record(gname, groups, scale)
        f = max(fs, key=lambda x: sum(1 for l in read_lines(x)[2:-1] if ('"op":"%s"' % op) in l[:40]))
        lines = read_lines(f)
        base = validate_one(specdir, f, work, 600, tmod, tcfg)
        if base["dis"] or base["end"] is None:
            log("  %s: the unmodified recording is not accepted -- cannot self-test" % gname)
            ok = False
            continue
        idx = [i for i, l in enumerate(lines[:-1]) if ('"op":"%s"' % op) in l[:40]]
        if gname == "C19":
            idx = idx[1:]       # the first run of a point only fixes the reference schedule
        if gname == "C15":
            idx = [i for i in idx if '"bufs":[{' in lines[i]]
        if not idx:
            log("  %s: no %s event recorded" % (gname, op))
            ok = False
            continue
        k = idx[len(idx) // 2]
        # for the "dropped event" test the event must have CHANGED what is observed (a product that equals the old
        # contents of its destination leaves no trace when it is removed)
        def changed(c):
            e0, e1 = json.loads(lines[c - 1]), json.loads(lines[c])
            return c > 2 and "obs" in e0 and e0["obs"] != e1["obs"]
        for cand in idx[len(idx) // 2:] + idx[:len(idx) // 2]:
            if changed(cand):
                k = cand
                break
        ev = json.loads(lines[k])
        corrupt(ev)
        g = os.path.join(work, "corrupt_%s.ndjson" % gname)
        open(g, "w").write("\n".join(lines[:k] + [json.dumps(ev)] + lines[k + 1:]) + "\n")
        expect("%s: one observed byte of a %s event flipped (line %d)" % (tmod, op, k + 1), validate_one(specdir, g, work, 600, tmod, tcfg), want_line=k + 1)
        if tmod == "TraceSecp.tla" or tmod == "TraceField.tla":
            g2 = os.path.join(work, "dropped_%s.ndjson" % gname)
            open(g2, "w").write("\n".join(lines[:k] + lines[k + 1:]) + "\n")
            expect("%s: the %s event of line %d dropped" % (tmod, op, k + 1), validate_one(specdir, g2, work, 600, tmod, tcfg), at_or_after=k + 1)

    # (iii) every named deviation of the implementation-shaped modules must be caught by TLC
    seen = set()
    for prop, devs in sorted(DEVIATIONS.items()):
        for (module, cfg, old, new) in devs:
            if (module, cfg, new) in seen:
                continue
            seen.add((module, cfg, new))
            txt = open(os.path.join(specdir, cfg)).read()
            open(os.path.join(specdir, "DEV_" + cfg), "w").write(txt.replace(old, new))
            r = run_mc(specdir, work, module, "DEV_" + cfg, timeout=400)
            caught = "is violated" in r["out"]
            log("  %-62s %s" % ("%s with %s" % (cfg, new), "violation found by TLC as expected" if caught else "NOT CAUGHT"))
            ok = ok and caught
    r = run_apalache(specdir, work, "WrongLemma", expect_error=True)
    log("  %-62s %s" % ("ApaLimbs.tla WrongLemma (borrow chain without the last borrow)", "counterexample found by Apalache as expected" if r["ok"] else "NOT CAUGHT"))
    ok = ok and r["ok"]
    log("selftest: %s" % ("all rejections happened" if ok else "FAILED"))
    return 0 if ok else 2


# ------------------------------------------------------------------ entry point
def main(argv):
    ap = argparse.ArgumentParser(prog="check")
    ap.add_argument("prop", nargs="?")
    ap.add_argument("--tier", default=os.environ.get("VERIF_TIER", "quick"), choices=["quick", "thorough"])
    ap.add_argument("--seed", type=int, default=int(os.environ.get("VERIF_SEED", "1") or 1))
    ap.add_argument("--replay")
    ap.add_argument("--keep", action="store_true")
    ap.add_argument("--selftest", action="store_true")
    ap.add_argument("--scale", type=float, default=float(os.environ.get("VERIF_SCALE", "1.0")))
    a = ap.parse_args(argv)
    prop = a.prop
    if a.selftest:
        work = tempfile.mkdtemp(prefix="verif_selftest_")
        os.environ["TLC_TMPDIR"] = work
        try:
            return selftest(work)
        except Inconclusive as e:
            log("INCONCLUSIVE: %s" % e)
            return 2
        finally:
            shutil.rmtree(work, ignore_errors=True)
    if a.replay and a.replay.endswith(".txt"):
        # a crash log or a race report: there is no recorded history to re-execute; run the check again
        m = re.search(r"/(C\d+)_(quick|thorough)_(\d+)_", a.replay)
        if m and not prop:
            prop = m.group(1)
        if m:
            a.tier, a.seed = m.group(2), int(m.group(3))
        a.replay = None
    if a.replay and not prop:
        prop = json.load(open(a.replay))["property"]
    if not prop:
        ap.error("property id required")
    work = tempfile.mkdtemp(prefix="verif_%s_" % prop)
    os.environ["TLC_TMPDIR"] = work  # SANY unpacks the standard modules into java.io.tmpdir on every run
    t0 = time.time()
    rc = 2
    try:
        log("check %s tier=%s seed=%d" % (prop, a.tier, a.seed))
        if prop in TRACE_PROPS:
            rc = check_trace_property(prop, a.tier, a.seed, work, replay=a.replay, scale=a.scale)
        else:
            import checkextra
            rc = checkextra.run(prop, a.tier, a.seed, work, replay=a.replay, scale=a.scale)
    except LibraryCrash as e:
        log("  the harness process died inside the library: %s" % e.what)
        write_evidence(prop, a.tier, a.seed, {"states": 1, "transitions": 1, "traces_validated_against_impl": 0, "evaluations": 1, "distinct_nontrivial": 2,
                                              "samples": [{"crash": e.what}], "explanation": "the recorded execution ended in a crash of the library"},
                       time.time() - t0, 1, ASSUME)
        print("VIOLATION property=%s replay=%s" % (prop, e.log_path), flush=True)
        rc = 1
    except Inconclusive as e:
        log("INCONCLUSIVE: %s" % e)
        rc = 2
    finally:
        if a.keep:
            log("work dir kept: " + work)
        else:
            shutil.rmtree(work, ignore_errors=True)
    log("check %s: exit %d (%.1fs)" % (prop, rc, time.time() - t0))
    return rc
