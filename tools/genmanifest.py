#!/usr/bin/env python3
"""Writes /verif/MANIFEST.json from the table below (one source of truth for ids, notes, techniques)."""
import json, os
ROOT = os.path.dirname(os.path.dirname(os.path.abspath(__file__)))

TV = "TLA+ spec (SecpAbs / FieldAbs over 256-bit BigNat carriers, side models Link, Conc, Memo, Mem, Schedule, Mont) + TLC trace validation of recorded executions of the real code (state taken from the stored limbs where the build allows, Encode / IsIdentity / Equal as checked observers); toy-scale exhaustive TLC model checking of the same modules with named deviations; Apalache lemmas for the full-width limb idioms; inputs chosen per class of the model's case analysis and, for the word-level code, per carry site of the code read from the tree (random + z3, inputs only)"
CARRY = " Operands that drive the carry / borrow / quotient-digit sites of the word-level functions (read from the current tree with go/ast, solved by random search and concolic z3: corpus/carry.json plus a per-run regeneration) are replayed through this property's own calls."
CLAIMED = {
 "C01": ("4 C01", "EMultiply action: [k]P computed by the spec's own Jacobian double-and-add over BigNat and compared with the logged Encode of the receiver, for scalar classes (0, 1, 2, n-1, n-2, (n+-1)/2, 2^255, top bit set, dense, limb patterns, random) x element classes (base, random, rescaled, three identity representations, doubled); the ladder itself is model-checked exhaustively on toy curves." + CARRY),
 "C02": ("4 C02", "EAdd/ESubtract/EDouble/ENegate actions via the inversion-free relation IsSum (unique solution) on every operand-relation class (independent, equal/negated in same or other representation, identity left/right/both in four representations, same x, same y, base) with every aliasing; accessor-injected projective scalings." + CARRY),
 "C03": ("4 C03", "EDecode* actions: Sec1 decoders as total functions with checked square-root witnesses; product of lengths x prefixes x x-classes (0, 1, p-1, p, p+1, on-curve+p, 2^256-1, on/off curve) x y-classes x six entry points x prior receiver; receiver must be unchanged on rejection." + CARRY),
 "C04": ("4 C04", "EEncode/EEncodeUncompressed/EXCoordinate/EHex/EMarshalBinary actions on elements in different projective representations (accessor rescaling) and the round trip through EDecode." + CARRY),
 "C05": ("4 C05", "EEqual/EIsIdentity actions on all relation classes in both orders, before and after arithmetic and rescaling." + CARRY),
 "C06": ("4 C06", "Scalar ring actions with every aliasing; Invert by its defining relation; Pow by the spec's square-and-multiply; operand classes from limb patterns and near-modulus sums/differences/products." + CARRY),
 "C07": ("4 C07", "SEncode/SDecode/hex/binary actions: length classes, values around n (n, n+-k, n with one limb altered, 2^256-1), three distinct error classes, both round trips." + CARRY),
 "C08": ("4 C08", "EHashToGroup/EEncodeToGroup actions: SHA-256, expand_message_xmd, hash_to_field computed in TLA+; SSWU, addition on E' and the isogeny checked by relations with unique solutions; message lengths at SHA padding boundaries, DST lengths 1..1000 incl. 255/256/257 (oversize rule), empty/nil DST must panic; DSTs at and beyond 2^16 bytes; caller buffers reused and edited in place between calls; the suite identifier; Memo.tla model-checked with its deviations."),
 "C09": ("4 C09", "SHashToScalar action: OS2IP(expand_message_xmd(msg, DST, 48)) mod n computed in TLA+; second pass: the scalar field's 48-byte wide reduction (internal/scalar) on chosen strings incl. fold / ripple classes and strings solved for the carry sites of the conversion of b and of its multiplication by the constant 2^192 (lattice-lifted); histories that reuse and edit the caller's message / DST buffers between calls; DSTs up to 128 KiB; Memo.tla (package-level memo designs) model-checked with its deviations."),
 "C10": ("4 C10", "Random histories (40 calls) over a pool of 4 elements and 3 scalars with deliberate aliasing; the full pool is observed after every call, so frame conditions and copy independence are checked at every step; SecpAbs is additionally explored exhaustively by TLC on a toy curve."),
 "C11": ("4 C11", "FieldAbs!MSswu / MIso actions: the exported SSWU and isogeny functions called on u in {0, +-sqrt(-1/Z) (the three exceptional values), 1, p-1, small, random; both parities; g(x1) square and non-square}; the returned point of E' is checked by the inversion-free relation Sswu!IsMapOf (unique solution; equivalence with the RFC's functional definition model-checked for every u of toy fields), the isogeny by the cross-multiplied rational map and the curve equation; also on sums of mapped points." + CARRY),
 "C12": ("4 C12", "FieldAbs: internal/field.Element methods as actions over a pool of 4 registers with explicit destination/source ids (aliasing), Bytes() of every register observed after every call plus a canonical-representation probe; results computed by the specification's BigNat arithmetic, Invert and SqrtRatio by their defining relations; operand classes from limb patterns, values around p, squares / non-squares, 32-byte parser inputs around p, 48-byte wide-reduction classes. The specification acts as an executable oracle here (TLA+ contributes least for this property)." + CARRY),
 "C13": ("4 C13", "SEqual/SIsZero/SIsOne/SLessOrEqual/SCSelect actions; random and limb-pattern pairs; condition words 0, 1, 2, 2^32, 2^63, 2^64-1, random; nil operands." + CARRY),
 "C14": ("4 C14", "SBits action: all 256 powers of two, boundary values, values produced by arithmetic." + CARRY),
 "C15": ("4 C15", "Mem.tla: caller buffers and result intervals as state; Call requires every byte of every caller buffer (whole backing array, three layouts: len=cap, len<cap, interior sub-slice) unchanged and every returned slice disjoint from all caller buffers and all earlier results; Probe re-observes values after the caller scribbled over returned slices / input buffers. Element and scalar arguments are covered by the frame conditions of C10's histories."),
 "C16": ("4 C16", "2..32 goroutines (GOMAXPROCS 1/2/4/16) call the API on own receivers with shared read-only elements, scalars, message, DST (spare capacity) and encodings in a -race binary; every goroutine's history is validated by TLC against the sequential specification (each call returns its sequential result); race-detector reports become RaceReport events for which the specification has no action; several distinct shared values of every kind, rejected decodes in the concurrent prologue, bursts of hashing / decoding calls (identical events written once); Conc.tla and Memo.tla (one-entry package memo: none / one lock section hold; unlocked / two lock sections / keyed by reference violate) model-checked."),
 "C17": ("4 C17", "Link.tla: the hash registry filled by the init functions of the linked packages; the library's import closure is read from the working tree (go list -deps) and TLC enumerates every program (all sets of extra registry-filling packages); real probe programs (plain binaries) are built and run for chosen / all sets, their outcome is checked against the model's prediction and the property, their results against the RFC 9380 specification. Configurations = 11 GOOS/GOARCH targets x every set of the build tags the library's own files are constrained on; the program may also re-register SHA-256 between two hashing calls (LateRegister)."),
 "C19": ("4 C19", "Schedule.tla (2-safety by self-composition: the first run of a point fixes the reference schedule, every other scalar must reproduce it exactly): every function of internal/field and internal/scalar is instrumented in a temporary copy made from the working tree (AST rewriter + overlay) and the ~79,000-entry sequence of field-level operations of Multiply is recorded for scalar classes 0, 2, 3, n-1, n-2, 2^i, 2^255, sparse, dense, word-structured, random on base / hashed / non-normalised / identity points. Only scalar-independence is demanded, not a particular schedule."),
 "C18": ("4 C18", "SRandom action over scripted entropy sources (crypto/rand.Reader swapped): blocks 0 and n force retries, every chunking of Reads, source failing at every kind of position; RandomSrc!Outcome decides result / panic."),
}
 # (C19 appended below)
NOT_YET = {
}

def main():
    checks = []
    for pid in sorted(CLAIMED):
        ref, text = CLAIMED[pid]
        checks.append({
            "property_id": pid,
            "quick_cmd": "./bin/check %s --tier quick" % pid,
            "thorough_cmd": "./bin/check %s --tier thorough" % pid,
            "evidence_file": "evidence/%s.json" % pid,
            "replay_cmd_template": "./bin/check %s --replay {path}" % pid,
            "engine": "tlc-trace-validation",
            "level_claimed": {"category": "model_checking", "text": text, "design_ref": "DESIGN.md section " + ref},
            "level_note": "Exhaustive only at toy scale (TLC over every point, scaling and scalar of small prime-order curves); at 256 bits the specification is the oracle for the executions explored, chosen per class of the model's case analysis. Trusted: TLC, the BigNat/SHA-256 TLA+ modules (self-validated against FIPS 180-4 and RFC 9380 vectors), the Go toolchain.",
            "technique": TV,
        })
    man = {
        "version": 1,
        "setup_cmd": "python3 tools/genparams.py",
        "hooks": {
            "guard": "verif",
            "enable": "go build -tags verif -overlay <json> ./internal/verifharness  (the accessor and the harness are injected by overlay from /verif/harness; no file of /repo is changed)",
            "baseline_off_cmd": "cd /repo && GOFLAGS=-mod=mod GOPROXY=off go test -vet=off -count=1 ./...",
            "source_commits": [],
            "add_only": True,
        },
        "engines": [{"name": "tlc-trace-validation", "path": "bin/check", "serves_properties": sorted(CLAIMED),
                     "kind_free_text": "TLA+ specification (spec/*.tla) model-checked at toy scale and used by TLC as the oracle for ndjson traces recorded from the real code by an overlay-compiled Go harness"}],
        "checks": checks,
        "not_applicable": [{"property_id": k, "reason": v} for k, v in sorted(NOT_YET.items())],
        "notes": "See DESIGN.md. Exit 2 from a check means the machinery could not decide (never a violation).",
    }
    json.dump(man, open(os.path.join(ROOT, "MANIFEST.json"), "w"), indent=1)
    print("MANIFEST.json written: %d checks, %d not claimed" % (len(checks), len(NOT_YET)))

if __name__ == "__main__":
    main()
