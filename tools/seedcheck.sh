#!/bin/bash
# usage: seedcheck.sh <seed>...  -- runs every seeded change under seeded/ against the check that is recorded for it,
# once per seed, and prints whether it is detected (exit 1).  Patches /repo; restores it after each run.
cd "$(dirname "$0")/.."
for seed in "$@"; do
  for d in seeded/C*; do
    chk=$(python3 -c "import json;m=json.load(open('$d/meta.json'));print(m['check_result'].get('checked_by') or m['breaks_property'])")
    prop=$(python3 -c "import json;print(json.load(open('$d/meta.json'))['breaks_property'])")
    rc=$(VERIF_SEED=$seed tools/trymutant.sh $prop /verif/$d/patch.diff 2>&1 | grep "check exit:" | awk '{print $3}')
    echo "$(basename $d) seed=$seed own-check($prop) exit=$rc"
  done
done
