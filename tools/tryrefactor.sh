#!/bin/bash
# usage: tryrefactor.sh <patch.diff> <PROP>...  -- applies a behaviour-preserving change to /repo, runs the given
# checks (all must exit 0: no alarm on code where the properties hold) and ALWAYS restores /repo afterwards.
set -u
R=${VERIF_REPO:-/repo}
PATCH=$1; shift
export GOFLAGS=-mod=mod GOPROXY=off GOSUMDB=off GOTOOLCHAIN=local
if [ -n "$(git -C $R status --porcelain)" ]; then echo "repo not clean"; exit 9; fi
git -C $R apply "$PATCH" || { echo "patch does not apply"; exit 9; }
trap 'git -C $R checkout -- . ; git -C $R clean -fdq' EXIT
( cd $R && go build ./... && go test -vet=off -count=1 ./... 2>&1 | tail -2 )
for p in "$@"; do
  /verif/bin/check $p > /tmp/tryref_$$.log 2>&1; rc=$?
  echo "  $p exit=$rc"
  if [ $rc -ne 0 ]; then grep -E "VIOLATION|INCONCLUSIVE|MACHINERY|disagreement|note:" /tmp/tryref_$$.log | cut -c1-500 | head -6; fi
done
rm -f /tmp/tryref_$$.log
