#!/bin/bash
# usage: VERIF_REPO=<worktree> reeval_seeded.sh <out.tsv> <seeded-dir-name>...
# Re-runs, against the CURRENT /verif, the check each stored seeded change is recorded under (meta.json: checked_by) and
# rewrites the check_result of its meta.json.  Works in the given scratch worktree only.
set -u
OUT=$1; shift
: > "$OUT"
for d in "$@"; do
  D=/verif/seeded/$d
  [ -f $D/patch.diff ] || continue
  CHK=$(python3 -c "import json;print(json.load(open('$D/meta.json'))['check_result'].get('checked_by') or json.load(open('$D/meta.json'))['breaks_property'])")
  t0=$(date +%s)
  rc=$(/verif/tools/trymutant.sh $CHK $D/patch.diff 2>&1 | grep "check exit:" | awk '{print $3}')
  t1=$(date +%s)
  echo -e "$d\t$CHK\t${rc:-?}\t$((t1-t0))s" | tee -a "$OUT"
  python3 - "$D" "${rc:-?}" "$CHK" <<'PY'
import json, sys
d, rc, chk = sys.argv[1:4]
m = json.load(open(d + "/meta.json"))
m["check_result"] = {"command": "./bin/check %s --tier quick (VERIF_SEED=1), change applied to a scratch worktree with git apply and undone with git checkout" % chk,
                     "checked_by": chk, "exit": int(rc) if rc.isdigit() else rc, "detected": rc == "1"}
json.dump(m, open(d + "/meta.json", "w"), indent=1)
PY
done
