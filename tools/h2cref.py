"""Reference arithmetic in Python (secp256k1, RFC 9380 suite) used ONLY to
 - sanity-check the constants before spec/Params.tla is generated (tools/genparams.py), and
 - produce untrusted certificates (intermediate points of the hash-to-curve chain, square-root
   witnesses) for traces the driver assembles itself (C17 probe programs).
Verdicts never come from here: TLC checks every certificate against the TLA+ specification."""
import hashlib

P = 2**256 - 2**32 - 977
N = 0xFFFFFFFFFFFFFFFFFFFFFFFFFFFFFFFEBAAEDCE6AF48A03BBFD25E8CD0364141
GX = 0x79BE667EF9DCBBAC55A06295CE870B07029BFCDB2DCE28D959F2815B16F81798
GY = 0x483ADA7726A3C4655DA4FBFC0E1108A8FD17B448A68554199C47D08FFB10D4B8
ISO_A = 0x3F8731ABDD661ADCA08A5558F0F5D272E953D363CB6F0E5D405447C01A444533
ISO_B = 1771
Z = P - 11
K = {
    "K10": 0x8E38E38E38E38E38E38E38E38E38E38E38E38E38E38E38E38E38E38DAAAAA8C7,
    "K11": 0x07D3D4C80BC321D5B9F315CEA7FD44C5D595D2FC0BF63B92DFFF1044F17C6581,
    "K12": 0x534C328D23F234E6E2A413DECA25CAECE4506144037C40314ECBD0B53D9DD262,
    "K13": 0x8E38E38E38E38E38E38E38E38E38E38E38E38E38E38E38E38E38E38DAAAAA88C,
    "K20": 0xD35771193D94918A9CA34CCBB7B640DD86CD409542F8487D9FE6B745781EB49B,
    "K21": 0xEDADC6F64383DC1DF7C4B2D51B54225406D36B641F5E41BBC52A56612A8C6D14,
    "K30": 0x4BDA12F684BDA12F684BDA12F684BDA12F684BDA12F684BDA12F684B8E38E23C,
    "K31": 0xC75E0C32D5CB7C0FA9D0A54B12A0A6D5647AB046D686DA6FDFFC90FC201D71A3,
    "K32": 0x29A6194691F91A73715209EF6512E576722830A201BE2018A765E85A9ECEE931,
    "K33": 0x2F684BDA12F684BDA12F684BDA12F684BDA12F684BDA12F684BDA12F38E38D84,
    "K40": 0xFFFFFFFFFFFFFFFFFFFFFFFFFFFFFFFFFFFFFFFFFFFFFFFFFFFFFFFEFFFFF93B,
    "K41": 0x7A06534BB8BDB49FD5E9E6632722C2989467C1BFC8E8D978DFB425D2685C2573,
    "K42": 0x6484AA716545CA2CF3A70C3FA8FE337E0A3D21162F0D6299A7BF8192BFD2A76F,
}



# ---------------------------------------------------------------- sanity
def inv(a, m=P):
    return pow(a, m - 2, m)


def ec_add(p1, p2):
    if p1 is None:
        return p2
    if p2 is None:
        return p1
    x1, y1 = p1
    x2, y2 = p2
    if x1 == x2:
        if (y1 + y2) % P == 0:
            return None
        lam = 3 * x1 * x1 * inv(2 * y1) % P
    else:
        lam = (y2 - y1) * inv(x2 - x1) % P
    x3 = (lam * lam - x1 - x2) % P
    return (x3, (lam * (x1 - x3) - y1) % P)


def ec_mul(k, pt):
    r = None
    while k:
        if k & 1:
            r = ec_add(r, pt)
        pt = ec_add(pt, pt)
        k >>= 1
    return r


def sqrt_p(a):
    r = pow(a, (P + 1) // 4, P)
    return r if r * r % P == a % P else None


def sswu(u):
    tv1 = inv((Z * Z * pow(u, 4, P) + Z * u * u) % P)  # inv0
    x1 = (-ISO_B * inv(ISO_A)) % P * (1 + tv1) % P
    if tv1 == 0:
        x1 = ISO_B * inv(Z * ISO_A % P) % P
    gx1 = (pow(x1, 3, P) + ISO_A * x1 + ISO_B) % P
    x2 = Z * u * u % P * x1 % P
    gx2 = (pow(x2, 3, P) + ISO_A * x2 + ISO_B) % P
    y1 = sqrt_p(gx1)
    if y1 is not None:
        x, y = x1, y1
    else:
        x, y = x2, sqrt_p(gx2)
        assert y is not None
    if (u & 1) != (y & 1):
        y = P - y
    return x, y


def iso(pt):
    x, y = pt
    xn = (K["K13"] * x**3 + K["K12"] * x**2 + K["K11"] * x + K["K10"]) % P
    xd = (x**2 + K["K21"] * x + K["K20"]) % P
    yn = (K["K33"] * x**3 + K["K32"] * x**2 + K["K31"] * x + K["K30"]) % P
    yd = (x**3 + K["K42"] * x**2 + K["K41"] * x + K["K40"]) % P
    return xn * inv(xd) % P, y * yn % P * inv(yd) % P


def xmd(msg, dst, n):
    if len(dst) > 255:
        dst = hashlib.sha256(b"H2C-OVERSIZE-DST-" + dst).digest()
    dp = dst + bytes([len(dst)])
    ell = (n + 31) // 32
    b0 = hashlib.sha256(bytes(64) + msg + n.to_bytes(2, "big") + b"\0" + dp).digest()
    b = [hashlib.sha256(b0 + b"\1" + dp).digest()]
    for i in range(2, ell + 1):
        b.append(hashlib.sha256(bytes(x ^ y for x, y in zip(b0, b[-1])) + bytes([i]) + dp).digest())
    return b"".join(b)[:n]




def h2c_cert(msg, dst, ro):
    """Certificate record for an EHashToGroup / EEncodeToGroup trace event (see harness/main/h2c_cert.go)."""
    b32 = lambda v: list(v.to_bytes(32, "big"))
    n = 96 if ro else 48
    ub = xmd(msg, dst, n)
    us = [int.from_bytes(ub[i:i + 48], "big") % P for i in range(0, n, 48)]
    q0 = sswu(us[0])
    c = {"q0x": b32(q0[0]), "q0y": b32(q0[1]), "q1x": [], "q1y": [], "rx": [], "ry": []}
    if ro:
        q1 = sswu(us[1])
        c["q1x"], c["q1y"] = b32(q1[0]), b32(q1[1])
        r = iso_add(q0, q1)
        if r is not None:
            c["rx"], c["ry"] = b32(r[0]), b32(r[1])
    return c


def iso_add(p1, p2):
    x1, y1 = p1
    x2, y2 = p2
    if x1 == x2:
        if (y1 + y2) % P == 0:
            return None
        lam = (3 * x1 * x1 + ISO_A) * inv(2 * y1) % P
    else:
        lam = (y2 - y1) * inv(x2 - x1) % P
    x3 = (lam * lam - x1 - x2) % P
    return (x3, (lam * (x1 - x3) - y1) % P)


def sqrt_witness(xb):
    """Witness for the square-ness of x^3+7 (see spec/Sec1.tla)."""
    x = int.from_bytes(bytes(xb), "big")
    if x >= P:
        return [0] * 32, True
    g = (pow(x, 3, P) + 7) % P
    y = sqrt_p(g)
    if y is not None:
        return y, True
    return sqrt_p((-g) % P), False
