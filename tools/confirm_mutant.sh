#!/bin/bash
# usage: confirm_mutant.sh <PROP> <mN> <srcdir>  -- confirms a seeded change in a scratch worktree (never in /repo):
#   demo passes on HEAD; with the patch: builds, the existing suite passes, the demo fails.
# Then runs the property's check against the change (applied to /repo and undone straight afterwards) and
# stores everything under /verif/seeded/<PROP>_<mN>/.
set -u
PROP=$1; M=$2; SRC=$3
export GOFLAGS=-mod=mod GOPROXY=off GOSUMDB=off GOTOOLCHAIN=local
WT=/tmp/confirm_wt_$$
N=${M#m}
git -C /repo worktree add -q --detach $WT HEAD || exit 9
cleanup() { git -C /repo worktree remove --force $WT 2>/dev/null; }
trap cleanup EXIT
PKG=$(grep -m1 '^package ' $SRC/${M}_demo_test.go | awk '{print $2}')
if [ -n "${DEMO_DIR:-}" ]; then PKG=override; fi
case "$PKG" in
  override) DDIR=$DEMO_DIR ;;
  field|field_test) DDIR=internal/field ;;
  scalar|scalar_test) DDIR=internal/scalar ;;
  secp256k1) DDIR=. ;;
  *) DDIR=tests ;;
esac
RACE=""
grep -q -- "-race" $SRC/${M}_demo_test.go && RACE="-race"
cp $SRC/${M}_demo_test.go $WT/$DDIR/zz_${M}_demo_test.go
RUN="M${N}"
( cd $WT && go test $RACE -vet=off -count=1 -run "$RUN" ./$DDIR/ >/tmp/confirm_head_$$.log 2>&1 ); HEAD_RC=$?
git -C $WT apply $SRC/$M.diff || { echo "patch does not apply"; exit 9; }
rm $WT/$DDIR/zz_${M}_demo_test.go
( cd $WT && go build ./... && go test -vet=off -count=1 ./... >/tmp/confirm_suite_$$.log 2>&1 ); SUITE_RC=$?
cp $SRC/${M}_demo_test.go $WT/$DDIR/zz_${M}_demo_test.go
( cd $WT && go test $RACE -vet=off -count=1 -run "$RUN" ./$DDIR/ >/tmp/confirm_mut_$$.log 2>&1 ); MUT_RC=$?
echo "demo on HEAD rc=$HEAD_RC (want 0); suite with change rc=$SUITE_RC (want 0); demo with change rc=$MUT_RC (want != 0)"
OUT=/verif/replays/trymutant_$$.log
CHK=${CHECK_PROP:-$PROP}
/verif/tools/trymutant.sh $CHK $SRC/$M.diff > $OUT 2>&1
CHECK_RC=$(grep "check exit:" $OUT | awk '{print $3}')
echo "check $CHK on the change: exit $CHECK_RC"
if [ $HEAD_RC -eq 0 ] && [ $SUITE_RC -eq 0 ] && [ $MUT_RC -ne 0 ]; then
  D=/verif/seeded/${PROP}_${STORE_AS:-$M}; mkdir -p $D
  cp $SRC/$M.diff $D/patch.diff; cp $SRC/${M}_demo_test.go $D/demo_test.go; cp $SRC/$M.md $D/notes.md 2>/dev/null
  python3 - "$D" "$PROP" "$M" "$CHECK_RC" "$CHK" <<'PY'
import json, sys, re
d, prop, m, rc, chk = sys.argv[1:6]
notes = open(d + "/notes.md").read() if __import__("os").path.exists(d + "/notes.md") else ""
json.dump({
  "breaks_property": prop,
  "origin": "independent sub-agent given only the property text and a scratch worktree",
  "needs_to_manifest": notes[:1500],
  "confirmed": {"demo_passes_on_unchanged_HEAD": True, "builds_and_existing_suite_passes_with_change": True, "demo_fails_with_change": True,
                "how": "tools/confirm_mutant.sh in a scratch worktree under /tmp (removed afterwards)"},
  "check_result": {"command": "./bin/check %s --tier quick (VERIF_SEED=1), change applied to /repo with git apply and undone with git checkout" % chk,
                   "checked_by": chk,
                   "exit": int(rc) if rc.isdigit() else rc, "detected": rc == "1"},
}, open(d + "/meta.json", "w"), indent=1)
PY
  echo "stored in $D"
else
  echo "NOT CONFIRMED - not stored"
fi
rm -f /tmp/confirm_*_$$.log $OUT
