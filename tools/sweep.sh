#!/bin/bash
# usage: sweep.sh <tier> <seed>...   -- runs every registered check once per seed on the current tree; prints id, seed, exit, seconds
TIER=$1; shift
cd "$(dirname "$0")/.."
for seed in "$@"; do
  for p in C01 C02 C03 C04 C05 C06 C07 C08 C09 C10 C11 C12 C13 C14 C15 C16 C17 C18 C19; do
    t0=$(date +%s)
    VERIF_SEED=$seed ./bin/check $p --tier $TIER > /tmp/sweep_$$.log 2>&1; rc=$?
    t1=$(date +%s)
    echo "$p seed=$seed tier=$TIER exit=$rc $((t1-t0))s"
    if [ $rc -ne 0 ]; then grep -E "VIOLATION|INCONCLUSIVE|MACHINERY|disagreement" /tmp/sweep_$$.log | cut -c1-400 | head -5; fi
  done
done
rm -f /tmp/sweep_$$.log
