#!/usr/bin/env python3
"""Generate spec/Params.tla (secp256k1 / RFC 9380 constants as 12-bit limb tuples)
and spec/Sha256K.tla (SHA-256 round constants) from hexadecimal literals.

The literals below are the *specification's own* copies (SEC2, RFC 9380 section
8.7 and appendix E.1, FIPS 180-4); they are not read from /repo.  Before writing
anything the script checks them mathematically (curve equation, group order,
isogeny maps E' onto E, SHA-256 constants re-derived from prime roots) and
against the pinned RFC 9380 test vectors in /verif/vectors, so a typo here is a
generation failure, not a silent wrong oracle.
"""
import hashlib, json, os, sys

HERE = os.path.dirname(os.path.abspath(__file__))
ROOT = os.path.dirname(HERE)

P = 2**256 - 2**32 - 977
N = 0xFFFFFFFFFFFFFFFFFFFFFFFFFFFFFFFEBAAEDCE6AF48A03BBFD25E8CD0364141
GX = 0x79BE667EF9DCBBAC55A06295CE870B07029BFCDB2DCE28D959F2815B16F81798
GY = 0x483ADA7726A3C4655DA4FBFC0E1108A8FD17B448A68554199C47D08FFB10D4B8
ISO_A = 0x3F8731ABDD661ADCA08A5558F0F5D272E953D363CB6F0E5D405447C01A444533
ISO_B = 1771
Z = P - 11
K = {
    "K10": 0x8E38E38E38E38E38E38E38E38E38E38E38E38E38E38E38E38E38E38DAAAAA8C7,
    "K11": 0x07D3D4C80BC321D5B9F315CEA7FD44C5D595D2FC0BF63B92DFFF1044F17C6581,
    "K12": 0x534C328D23F234E6E2A413DECA25CAECE4506144037C40314ECBD0B53D9DD262,
    "K13": 0x8E38E38E38E38E38E38E38E38E38E38E38E38E38E38E38E38E38E38DAAAAA88C,
    "K20": 0xD35771193D94918A9CA34CCBB7B640DD86CD409542F8487D9FE6B745781EB49B,
    "K21": 0xEDADC6F64383DC1DF7C4B2D51B54225406D36B641F5E41BBC52A56612A8C6D14,
    "K30": 0x4BDA12F684BDA12F684BDA12F684BDA12F684BDA12F684BDA12F684B8E38E23C,
    "K31": 0xC75E0C32D5CB7C0FA9D0A54B12A0A6D5647AB046D686DA6FDFFC90FC201D71A3,
    "K32": 0x29A6194691F91A73715209EF6512E576722830A201BE2018A765E85A9ECEE931,
    "K33": 0x2F684BDA12F684BDA12F684BDA12F684BDA12F684BDA12F684BDA12F38E38D84,
    "K40": 0xFFFFFFFFFFFFFFFFFFFFFFFFFFFFFFFFFFFFFFFFFFFFFFFFFFFFFFFEFFFFF93B,
    "K41": 0x7A06534BB8BDB49FD5E9E6632722C2989467C1BFC8E8D978DFB425D2685C2573,
    "K42": 0x6484AA716545CA2CF3A70C3FA8FE337E0A3D21162F0D6299A7BF8192BFD2A76F,
}


def limbs(v, n=None):
    out = []
    while v:
        out.append(v & 0xFFF)
        v >>= 12
    if n is not None:
        assert len(out) <= n
        out += [0] * (n - len(out))
    return out


def tla(seq):
    return "<<" + ", ".join(str(x) for x in seq) + ">>"


# ---------------------------------------------------------------- sanity
def inv(a, m=P):
    return pow(a, m - 2, m)


def ec_add(p1, p2):
    if p1 is None:
        return p2
    if p2 is None:
        return p1
    x1, y1 = p1
    x2, y2 = p2
    if x1 == x2:
        if (y1 + y2) % P == 0:
            return None
        lam = 3 * x1 * x1 * inv(2 * y1) % P
    else:
        lam = (y2 - y1) * inv(x2 - x1) % P
    x3 = (lam * lam - x1 - x2) % P
    return (x3, (lam * (x1 - x3) - y1) % P)


def ec_mul(k, pt):
    r = None
    while k:
        if k & 1:
            r = ec_add(r, pt)
        pt = ec_add(pt, pt)
        k >>= 1
    return r


def sqrt_p(a):
    r = pow(a, (P + 1) // 4, P)
    return r if r * r % P == a % P else None


def sswu(u):
    tv1 = inv((Z * Z * pow(u, 4, P) + Z * u * u) % P)  # inv0
    x1 = (-ISO_B * inv(ISO_A)) % P * (1 + tv1) % P
    if tv1 == 0:
        x1 = ISO_B * inv(Z * ISO_A % P) % P
    gx1 = (pow(x1, 3, P) + ISO_A * x1 + ISO_B) % P
    x2 = Z * u * u % P * x1 % P
    gx2 = (pow(x2, 3, P) + ISO_A * x2 + ISO_B) % P
    y1 = sqrt_p(gx1)
    if y1 is not None:
        x, y = x1, y1
    else:
        x, y = x2, sqrt_p(gx2)
        assert y is not None
    if (u & 1) != (y & 1):
        y = P - y
    return x, y


def iso(pt):
    x, y = pt
    xn = (K["K13"] * x**3 + K["K12"] * x**2 + K["K11"] * x + K["K10"]) % P
    xd = (x**2 + K["K21"] * x + K["K20"]) % P
    yn = (K["K33"] * x**3 + K["K32"] * x**2 + K["K31"] * x + K["K30"]) % P
    yd = (x**3 + K["K42"] * x**2 + K["K41"] * x + K["K40"]) % P
    return xn * inv(xd) % P, y * yn % P * inv(yd) % P


def xmd(msg, dst, n):
    if len(dst) > 255:
        dst = hashlib.sha256(b"H2C-OVERSIZE-DST-" + dst).digest()
    dp = dst + bytes([len(dst)])
    ell = (n + 31) // 32
    b0 = hashlib.sha256(bytes(64) + msg + n.to_bytes(2, "big") + b"\0" + dp).digest()
    b = [hashlib.sha256(b0 + b"\1" + dp).digest()]
    for i in range(2, ell + 1):
        b.append(hashlib.sha256(bytes(x ^ y for x, y in zip(b0, b[-1])) + bytes([i]) + dp).digest())
    return b"".join(b)[:n]


def check_constants():
    assert (GY * GY - GX**3 - 7) % P == 0
    assert ec_mul(N, (GX, GY)) is None
    # isogeny maps E' onto E
    for u in (0, 1, 2, 3, 0xDEADBEEF, P - 1):
        x, y = sswu(u)
        assert (y * y - x**3 - ISO_A * x - ISO_B) % P == 0
        X, Y = iso((x, y))
        assert (Y * Y - X**3 - 7) % P == 0, "isogeny constant wrong"
    nvec = 0
    for fn in ("secp256k1_XMD-SHA-256_SSWU_RO_.json", "secp256k1_XMD-SHA-256_SSWU_NU_.json"):
        d = json.load(open(os.path.join(ROOT, "vectors", fn)))
        dst = d["dst"].encode()
        ro = d["randomOracle"]
        for v in d["vectors"]:
            msg = v["msg"].encode()
            ub = xmd(msg, dst, 96 if ro else 48)
            us = [int.from_bytes(ub[i : i + 48], "big") % P for i in range(0, len(ub), 48)]
            assert us == [int(x, 16) for x in v["u"]], "u mismatch"
            qs = [iso(sswu(u)) for u in us]
            if ro:
                assert qs[0] == (int(v["Q0"]["x"], 16), int(v["Q0"]["y"], 16))
                assert qs[1] == (int(v["Q1"]["x"], 16), int(v["Q1"]["y"], 16))
                pt = ec_add(qs[0], qs[1])
            else:
                pt = qs[0]
            assert pt == (int(v["P"]["x"], 16), int(v["P"]["y"], 16))
            nvec += 1
    return nvec


# ---------------------------------------------------------------- SHA-256 constants
def primes(k):
    out, c = [], 2
    while len(out) < k:
        if all(c % q for q in out):
            out.append(c)
        c += 1
    return out


def iroot(n, k):
    lo, hi = 0, 1 << ((n.bit_length() + k - 1) // k + 1)
    while lo < hi:
        mid = (lo + hi + 1) // 2
        if mid**k <= n:
            lo = mid
        else:
            hi = mid - 1
    return lo


def sha_constants():
    ps = primes(64)
    Kc = [iroot(p << 96, 3) & 0xFFFFFFFF for p in ps]
    H0 = [iroot(p << 64, 2) & 0xFFFFFFFF for p in ps[:8]]
    assert Kc[0] == 0x428A2F98 and Kc[63] == 0xC67178F2 and H0[0] == 0x6A09E667 and H0[7] == 0x5BE0CD19
    return Kc, H0


def tb(b):
    return "<<" + ", ".join(str(x) for x in b) + ">>"


def hb(h):
    return tb(int(h, 16).to_bytes(32, "big"))


def write_vectors():
    """The pinned RFC 9380 appendix J.8 vectors as a TLA+ module (byte strings)."""
    recs = []
    for fn in ("secp256k1_XMD-SHA-256_SSWU_RO_.json", "secp256k1_XMD-SHA-256_SSWU_NU_.json"):
        d = json.load(open(os.path.join(ROOT, "vectors", fn)))
        for v in d["vectors"]:
            ro = d["randomOracle"]
            f = ["ro |-> %s" % ("TRUE" if ro else "FALSE"),
                 "msg |-> " + tb(v["msg"].encode()), "dst |-> " + tb(d["dst"].encode()),
                 "u |-> <<" + ", ".join(hb(x) for x in v["u"]) + ">>",
                 "px |-> " + hb(v["P"]["x"]), "py |-> " + hb(v["P"]["y"]),
                 ]
            q0 = v["Q0"] if ro else v["Q"]
            f += ["q0x |-> " + hb(q0["x"]), "q0y |-> " + hb(q0["y"])]
            if ro:
                f += ["q1x |-> " + hb(v["Q1"]["x"]), "q1y |-> " + hb(v["Q1"]["y"])]
            else:
                f += ["q1x |-> <<>>", "q1y |-> <<>>"]
            recs.append("  [" + ",\n   ".join(f) + "]")
    V = ["------------------------------- MODULE Vectors -------------------------------",
         "(* GENERATED by tools/genparams.py from /verif/vectors/*.json (RFC 9380 J.8.1, J.8.2). *)",
         "RfcVectors == <<", ",\n".join(recs), ">>",
         "============================================================================="]
    open(os.path.join(ROOT, "spec", "Vectors.tla"), "w").write("\n".join(V) + "\n")


def main():
    nvec = check_constants()
    Kc, H0 = sha_constants()
    cP = 2**256 - P
    cN = 2**256 - N
    L = []
    L.append("------------------------------- MODULE Params -------------------------------")
    L.append("(* GENERATED by tools/genparams.py -- do not edit.  secp256k1 and RFC 9380 (8.7, E.1)")
    L.append("   constants as little-endian 12-bit limb tuples (see BigNat).  Checked at generation")
    L.append("   time against the curve equation, the group order and %d pinned RFC 9380 vectors. *)" % nvec)
    L.append("EXTENDS BigNat")
    L.append("P_m == " + tla(limbs(P, 22)))
    L.append("P_c == " + tla(limbs(cP)))
    L.append("N_m == " + tla(limbs(N, 22)))
    L.append("N_c == " + tla(limbs(cN)))
    L.append("PM == MkModulus(P_m, P_c)")
    L.append("NM == MkModulus(N_m, N_c)")
    L.append("G_x == " + tla(limbs(GX, 22)))
    L.append("G_y == " + tla(limbs(GY, 22)))
    L.append("CurveB == " + tla(limbs(7, 22)))
    L.append("IsoA == " + tla(limbs(ISO_A, 22)))
    L.append("IsoB == " + tla(limbs(ISO_B, 22)))
    L.append("SswuZ == " + tla(limbs(Z, 22)))
    for k in sorted(K):
        L.append("%s == %s" % (k, tla(limbs(K[k], 22))))
    L.append("\\* exponents used by the functional (non-relational) forms")
    L.append("P_minus2 == " + tla(limbs(P - 2, 22)))
    L.append("P_plus1_div4 == " + tla(limbs((P + 1) // 4, 22)))
    L.append("P_minus1_div2 == " + tla(limbs((P - 1) // 2, 22)))
    L.append("N_minus2 == " + tla(limbs(N - 2, 22)))
    L.append("=============================================================================")
    open(os.path.join(ROOT, "spec", "Params.tla"), "w").write("\n".join(L) + "\n")

    S = []
    S.append("------------------------------- MODULE Sha256K -------------------------------")
    S.append("(* GENERATED by tools/genparams.py -- do not edit.  FIPS 180-4 SHA-256 constants as")
    S.append("   <<high 16 bits, low 16 bits>> pairs, re-derived from the cube / square roots of the")
    S.append("   first 64 primes. *)")
    S.append("ShaK == <<" + ", ".join("<<%d, %d>>" % (k >> 16, k & 0xFFFF) for k in Kc) + ">>")
    S.append("ShaH0 == <<" + ", ".join("<<%d, %d>>" % (k >> 16, k & 0xFFFF) for k in H0) + ">>")
    S.append("=============================================================================")
    open(os.path.join(ROOT, "spec", "Sha256K.tla"), "w").write("\n".join(S) + "\n")
    write_vectors()
    print("genparams: ok (%d RFC vectors reproduced)" % nvec)


if __name__ == "__main__":
    main()
