#!/bin/bash
# usage: trymutant.sh <PROP> <patch.diff> [extra check args]   -- applies a seeded change to /repo, runs the
# repository's tests and the property's check, and ALWAYS restores /repo afterwards.
set -u
PROP=$1; PATCH=$2; shift 2
export GOFLAGS=-mod=mod GOPROXY=off GOSUMDB=off GOTOOLCHAIN=local
if [ -n "$(git -C /repo status --porcelain)" ]; then echo "repo not clean"; exit 9; fi
git -C /repo apply "$PATCH" || { echo "patch does not apply"; exit 9; }
trap 'git -C /repo checkout -- . ; git -C /repo clean -fdq' EXIT
( cd /repo && go build ./... && go test -vet=off -count=1 ./... 2>&1 | tail -3 )
echo "--- check $PROP"
/verif/bin/check "$PROP" "$@" 2>&1 | cut -c1-700 | tail -12
echo "check exit: ${PIPESTATUS[0]}"
