#!/bin/bash
# usage: trymutant.sh <PROP> <patch.diff> [extra check args]   -- applies a seeded change to /repo, runs the
# repository's tests and the property's check, and ALWAYS restores /repo afterwards.
set -u
R=${VERIF_REPO:-/repo}
PROP=$1; PATCH=$2; shift 2
export GOFLAGS=-mod=mod GOPROXY=off GOSUMDB=off GOTOOLCHAIN=local
if [ -n "$(git -C $R status --porcelain)" ]; then echo "repo not clean"; exit 9; fi
git -C $R apply "$PATCH" || { echo "patch does not apply"; exit 9; }
trap 'git -C $R checkout -- . ; git -C $R clean -fdq' EXIT
( cd $R && go build ./... && go test -vet=off -count=1 ./... 2>&1 | tail -3 )
echo "--- check $PROP"
/verif/bin/check "$PROP" "$@" 2>&1 | cut -c1-700 | tail -12
echo "check exit: ${PIPESTATUS[0]}"
